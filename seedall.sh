#!/bin/bash
# Re-runs every seeded change against the check that owns it (from meta.json "ran") and records exit codes.
# usage: ./seedall.sh [pattern [suffix]]      -> seeded/ALL_DETECT[_suffix].txt
cd /verif
out=seeded/ALL_DETECT${2:+_$2}.txt
: > $out
for m in seeded/${1:-*}/meta.json; do
  id=$(basename $(dirname $m))
  cmd=$(python3 -c "import json,sys; print(json.load(open('$m')).get('ran',''))")
  case "$cmd" in ./seedtest.sh*|TIER=*) ;; *) echo "$id: no command" >> $out; continue;; esac
  res=$(eval "$cmd" 2>&1 | grep -E "^RESULT" | sed -E 's/.*(new=[0-9]+).*(inconclusive=[0-9]+).*(exit=[0-9]+).*/\1 \2 \3/' | tr '\n' ';')
  echo "$id: $cmd -> $res" >> $out
done
echo finished >> $out
