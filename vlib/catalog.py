"""Catalogue of Kani harnesses: name -> (body path, unwind, stub set).  The Rust registry
(kani/src/registry.rs) is generated from this file by `python3 -m vlib.catalog`."""
import itertools
import os

MUL = ["ethnum::intrinsics::mul2 => crate::stubs::mul2",
       "ethnum::intrinsics::mul3 => crate::stubs::mul3",
       "ethnum::intrinsics::umulc => crate::stubs::umulc"]
DIV = ["ethnum::intrinsics::udivmod4 => crate::stubs::udivmod4"]
UUID = ["uuid::Uuid::new_v4 => crate::stubs::uuid_new_v4"]
CONFLICT = ["storage_layout_extractor::tc::expression::TypeExpression::conflict_with => crate::h_merge::conflict_with_stub"] + UUID

H = {}   # name -> (body, unwind, stubs)


def add(name, body, unwind, stubs=()):
    assert name not in H, name
    H[name] = (body, unwind, list(stubs))


# ---- KnownWord (C09-F1, C01) ---------------------------------------------------------
for op in ["add", "sub", "and", "or", "xor", "not", "lt", "gt", "slt", "sgt", "eq", "is_zero",
           "shl", "shr", "sar"]:
    add("known_" + op, "crate::h_known::" + op, 34)
add("known_mul", "crate::h_known::mul", 34, MUL)
for op in ["div", "rem", "sdiv", "smod"]:
    add("known_" + op, "crate::h_known::" + op, 34, DIV)
add("known_exp_base0", "crate::h_known::exp_base0", 258)
add("known_exp_base1", "crate::h_known::exp_base1", 258)
add("known_exp_base2", "crate::h_known::exp_base2", 258)
add("known_exp_small_exponent", "crate::h_known::exp_small_exponent", 34, MUL)
add("known_conversions", "crate::h_known::conversions", 34)
add("known_twin", "crate::h_known::twin", 34)

# ---- merge (C15, C16) ------------------------------------------------------------------
KINDS = ["any", "bytes", "word", "mapping", "dyn", "fixed", "conflict"]
MERGE_SYM = []
for i, j in itertools.combinations_with_replacement(range(7), 2):
    n = "merge_sym_%s_%s" % (KINDS[i], KINDS[j])
    add(n, "crate::h_merge::symmetric::<_, %d, %d>" % (i, j), 34 if 5 in (i, j) else 8, CONFLICT)
    MERGE_SYM.append(n)
MERGE_ASSOC = []
for i, j, k in itertools.product(range(7), repeat=3):
    n = "merge_assoc_%s_%s_%s" % (KINDS[i], KINDS[j], KINDS[k])
    add(n, "crate::h_merge::associative::<_, %d, %d, %d>" % (i, j, k), 34 if 5 in (i, j, k) else 8, CONFLICT)
    MERGE_ASSOC.append(n)
add("merge_twin", "crate::h_merge::twin", 8, CONFLICT)
JOIN = ["join_word_word"]
add("join_word_word", "crate::h_merge::join_word_word", 8, CONFLICT)
for k in (3, 4, 5):
    n = "join_same_%s" % KINDS[k]
    add(n, "crate::h_merge::join_same_constructor::<_, %d>" % k, 34 if k == 5 else 8, CONFLICT)
    JOIN.append(n)
for k in range(7):
    n = "join_any_%s" % KINDS[k]
    add(n, "crate::h_merge::join_any_identity::<_, %d>" % k, 34 if k == 5 else 8, CONFLICT)
    JOIN.append(n)
for k in (2, 4, 5):
    n = "join_contra_mapping_%s" % KINDS[k]
    add(n, "crate::h_merge::join_contradictions::<_, %d>" % k, 34 if k == 5 else 8, CONFLICT)
    JOIN.append(n)


# ---- VectorMap (C19) --------------------------------------------------------------------
for n in ["one_op", "two_ops", "iteration", "ops_then_iteration", "grow", "twin"]:
    add("vmap_" + n, "crate::h_vmap::" + n, 8)


# ---- StorageLayout (C12-L1) ---------------------------------------------------------------
for n in [1, 2, 3, 4]:
    add("layout_add_%d" % n, "crate::h_layout::add_n::<_, %d>" % n, 34)
add("layout_index_conversions", "crate::h_layout::index_conversions", 34)
add("layout_twin", "crate::h_layout::twin", 34)
for mk in (16, 64):
    add("pow2_exact_%d" % mk, "crate::h_layout::pow2_exact::<_, %d>" % mk, max(mk + 4, 34), ["ethnum::intrinsics::udivmod4 => crate::stubs::udivmod4_by_two"])
    add("pow2_rejects_%d" % mk, "crate::h_layout::pow2_rejects::<_, %d>" % mk, max(mk + 4, 34), ["ethnum::intrinsics::udivmod4 => crate::stubs::udivmod4_by_two"])


# ---- slot-index codec (C20, index codec only) ---------------------------------------------------
for n in ["index_format", "index_roundtrip", "index_parse", "twin"]:
    add("codec_" + n, "crate::h_codec::" + n, 70)


X16 = ["ethnum::intrinsics::mul2 => crate::stubs::mul2_x16", "ethnum::intrinsics::mul3 => crate::stubs::mul3_x16",
       "ethnum::intrinsics::umulc => crate::stubs::umulc_x16"]
add("codec_probe_serialize_const", "crate::h_codec::probe_serialize_const", 70)
add("codec_probe_parse_const", "crate::h_codec::probe_parse_const", 70)
add("codec_probe_parse_sym", "crate::h_codec::probe_parse_sym", 70, X16)
add("codec_probe_parse_sym_nostub", "crate::h_codec::probe_parse_sym", 70)


# ---- PushN (C10) -------------------------------------------------------------------------------
PUSHN_ALL = []
for n in range(0, 34):
    add("pushn_accepts_%d" % n, "crate::h_pushn::accepts::<_, %d>" % n, 36)
    PUSHN_ALL.append("pushn_accepts_%d" % n)
for n in range(1, 33):
    add("pushn_contract_%d" % n, "crate::h_pushn::contract::<_, %d>" % n, 36)
    PUSHN_ALL.append("pushn_contract_%d" % n)
PUSHN_QUICK = ["pushn_accepts_%d" % n for n in (0, 1, 2, 32, 33)] + ["pushn_contract_%d" % n for n in (1, 2, 20, 32)]
add("pushn_twin", "crate::h_pushn::twin", 36)


def generate():
    here = os.path.dirname(os.path.dirname(os.path.abspath(__file__)))
    out = ["// GENERATED by `python3 -m vlib.catalog` from vlib/catalog.py — do not edit.", "harnesses! {"]
    for name, (body, unwind, stubs) in H.items():
        out.append("    %s = %s, unwind %d, stubs [%s];" % (name, body, unwind, ", ".join(stubs)))
    out.append("}")
    p = os.path.join(here, "kani", "src", "registry.rs")
    with open(p, "w") as f:
        f.write("\n".join(out) + "\n")
    return p


if __name__ == "__main__":
    print(generate(), len(H), "harnesses")
