"""Shared plumbing: paths, evidence files, known findings, exit protocol."""
import hashlib
import json
import os
import subprocess
import sys
import time

VERIF = os.path.dirname(os.path.dirname(os.path.abspath(__file__)))
REPO = os.environ.get("VERIF_REPO", "/repo")
WORK = os.path.join(VERIF, ".work")
EVIDENCE = os.path.join(VERIF, "evidence")
CEX = os.path.join(VERIF, "cex")
KNOWN = os.path.join(VERIF, "known_findings.json")
HOOK_CFG = "smlxl_storage_layout_extractor_verif"

ENV = dict(os.environ)
ENV["CARGO_NET_OFFLINE"] = "true"
ENV.setdefault("CARGO_TERM_COLOR", "never")
# verification hooks in /repo are add-only accessors; every engine builds with them on
ENV["RUSTFLAGS"] = (os.environ.get("RUSTFLAGS", "") + " --cfg " + HOOK_CFG).strip()


def seed():
    try:
        return int(os.environ.get("VERIF_SEED", "0"))
    except ValueError:
        return 0


def ensure_dirs():
    for d in (WORK, EVIDENCE, CEX):
        os.makedirs(d, exist_ok=True)


def sh(cmd, cwd=None, timeout=None, env=None, input=None):
    """Run a command, return (rc, stdout+stderr). rc = -9 on timeout."""
    e = dict(ENV)
    if env:
        e.update(env)
    try:
        p = subprocess.run(cmd, cwd=cwd, env=e, timeout=timeout, input=input,
                           stdout=subprocess.PIPE, stderr=subprocess.STDOUT,
                           text=True, shell=isinstance(cmd, str), errors="replace")
        return p.returncode, p.stdout
    except subprocess.TimeoutExpired as ex:
        out = ex.stdout or ""
        if isinstance(out, bytes):
            out = out.decode(errors="replace")
        return -9, out


def repo_head():
    rc, out = sh(["git", "-C", REPO, "rev-parse", "--short", "HEAD"])
    return out.strip() if rc == 0 else "?"


def repo_dirty():
    rc, out = sh(["git", "-C", REPO, "status", "--porcelain", "--untracked-files=no"])
    return bool(out.strip())


class Known:
    """known_findings.json: read-only at run time.

    findings: [{property, key, what, witness?}]   -> suppress exactly that key
    fixed:    [{property, commit, key, what}]     -> suppress nothing
    """

    def __init__(self):
        self.findings = []
        self.fixed = []
        if os.path.exists(KNOWN):
            with open(KNOWN) as f:
                d = json.load(f)
            self.findings = d.get("findings", [])
            self.fixed = d.get("fixed", [])

    def lookup(self, prop, key):
        for f in self.findings:
            if f["property"] == prop and f["key"] == key:
                return f
        return None


class Violation:
    def __init__(self, key, what, replay=None, confirmed=True, detail=None):
        self.key = key            # role-based identity (site + class), not the witness
        self.what = what          # one line for humans
        self.replay = replay      # dict written to the cex file
        self.confirmed = confirmed
        self.detail = detail or {}


class Outcome:
    """Collects what a check run did and turns it into evidence + exit code."""

    def __init__(self, prop, tier, level="model_checking"):
        ensure_dirs()
        self.prop = prop
        self.tier = tier
        self.level = level
        self.t0 = time.time()
        self.obligations = []      # dicts: {id, engine, verdict, time_s, ...}
        self.violations = []       # Violation
        self.inconclusive = []     # strings
        self.assumptions = []
        self.functions = []
        self.bounds = []
        self.trusted = []
        self.notes = []
        self.samples = []
        self.solver_time = 0.0
        self.extra = {}

    # -- recording ---------------------------------------------------------------
    def obligation(self, oid, engine, verdict, time_s=0.0, **kw):
        d = {"id": oid, "engine": engine, "verdict": verdict, "time_s": round(time_s, 3)}
        d.update(kw)
        self.obligations.append(d)
        self.solver_time += time_s

    def violation(self, v):
        self.violations.append(v)

    def inconc(self, msg):
        self.inconclusive.append(msg)

    # -- finishing ---------------------------------------------------------------
    def finish(self):
        known = Known()
        new, listed = [], []
        for v in self.violations:
            k = known.lookup(self.prop, v.key)
            (listed if k else new).append((v, k))
        lines = []
        for v, k in listed:
            lines.append("KNOWN-FINDING: property=%s %s [%s]" % (self.prop, k["what"], v.key))
        replay_paths = []
        for v, _ in new:
            d = os.path.join(CEX, self.prop)
            os.makedirs(d, exist_ok=True)
            h = hashlib.sha1(v.key.encode()).hexdigest()[:10]
            p = os.path.join(d, "%s.json" % h)
            with open(p, "w") as f:
                json.dump({"property": self.prop, "key": v.key, "what": v.what,
                           "replay": v.replay, "detail": v.detail}, f, indent=1)
            replay_paths.append(p)
            lines.append("VIOLATION property=%s replay=%s" % (self.prop, p))
            lines.append("  what: %s [%s]" % (v.what, v.key))
        held = [o for o in self.obligations if o["verdict"] in ("holds", "expected-fail")]
        nontrivial = len({o["id"] for o in self.obligations
                          if o["verdict"] == "holds" and o.get("witness", True)})
        cov = {
            "evaluations": len(self.obligations),
            "distinct_nontrivial": nontrivial,
            "rule": ("one evaluation = one solver obligation (a Kani/CBMC harness or an SMT query over the "
                     "MIR encoding) decided for ALL values of its symbolic inputs within the stated bounds; "
                     "an obligation counts as non-trivial when its verdict is 'holds' AND its reachability "
                     "witness (cover / twin) shows the assertion site is reachable"),
            "samples": (self.samples or self.obligations)[:12],
            "obligations": len(self.obligations),
            "discharged": len(held),
            "violated_known": len(listed),
            "violated_new": len(new),
            "inconclusive": len(self.inconclusive),
            "obligation_list": self.obligations,
            "functions_encoded": self.functions,
            "bounds": self.bounds,
            "solver_time_s": round(self.solver_time, 2),
            "trusted_base": self.trusted,
            "repo_head": repo_head(),
            "repo_dirty": repo_dirty(),
            "notes": self.notes,
            "inconclusive_list": self.inconclusive,
        }
        cov.update(self.extra)
        ev = {
            "property_id": self.prop,
            "tier": self.tier,
            "seed": seed(),
            "level": self.level,
            "coverage": cov,
            "assumptions": self.assumptions,
            "wall_s": round(time.time() - self.t0, 2),
            "violations": len(new),
        }
        with open(os.path.join(EVIDENCE, "%s.json" % self.prop), "w") as f:
            json.dump(ev, f, indent=1)
        for l in lines:
            print(l)
        if new:
            rc = 1
        elif self.inconclusive:
            for m in self.inconclusive:
                print("INCONCLUSIVE property=%s %s" % (self.prop, m))
            rc = 2
        else:
            rc = 0
        print("RESULT property=%s tier=%s obligations=%d discharged=%d known=%d new=%d inconclusive=%d wall=%.1fs exit=%d"
              % (self.prop, self.tier, len(self.obligations), len(held), len(listed), len(new),
                 len(self.inconclusive), time.time() - self.t0, rc))
        return rc
