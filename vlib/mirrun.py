"""Glue between the check runner and Engine B (mirsmt)."""
import os
import sys
import time

from . import common as C

sys.path.insert(0, C.VERIF)

from mirsmt import engine as E  # noqa: E402


def load_engine(out, tag=None):
    """Dump MIR from /repo's current working tree and parse it."""
    work = os.path.join(C.WORK, "mir-%s" % (tag or out.prop))
    t0 = time.time()
    path, dt = E.dump_mir(C.REPO, work, env={"RUSTFLAGS": C.ENV["RUSTFLAGS"]})
    eng = E.Engine(C.REPO, path)
    bad = E.check_field_types(eng.src)
    if bad:
        out.inconc("field table out of date: %s" % bad)
    out.extra.setdefault("mir", {})["dump_s"] = round(dt, 1)
    out.extra["mir"]["functions_in_dump"] = len(eng.fns)
    out.trusted += ["rustc nightly MIR dump (-Zunpretty=mir, dev profile, overflow checks on)",
                    "mirsmt interpreter + summary table of std callees (/verif/mirsmt)", "z3 4.x (python API), cvc5 cross-check"]
    return eng
