"""`check <ID> --replay <cex.json>`: re-run a recorded counterexample against the CURRENT /repo tree.

Kani counterexamples are replayed through the same harness body natively (bin/replay, dev + release);
mirsmt counterexamples through the native scenario recorded with them (bin/scenario).
exit 1 + VIOLATION line if it still reproduces, 0 if it no longer does, 2 if it cannot be replayed."""
import json
import os

from . import common as C
from . import kani, native


class _Out:
    def __init__(self, prop):
        self.prop = prop + "-replay"


def find_scenario(obj):
    if isinstance(obj, dict):
        if "_scenario" in obj and isinstance(obj["_scenario"], dict):
            return obj["_scenario"]
        for v in obj.values():
            r = find_scenario(v)
            if r:
                return r
    if isinstance(obj, list):
        for v in obj:
            r = find_scenario(v)
            if r:
                return r
    return None


def replay_file(path):
    with open(path) as f:
        d = json.load(f)
    prop = d.get("property", "C00")
    rp = d.get("replay") or {}
    C.ensure_dirs()
    if rp.get("engine") == "kani":
        target = os.path.join(C.WORK, "target-native-%s-replay" % prop)
        bins, err = kani.build_replay(target)
        if bins is None:
            print("cannot build the native replay binary: %s" % err[-300:])
            return 2
        rr = kani.replay(bins, rp["harness"], rp["vals"])
        print(json.dumps(rr))
        if any(o == "reproduced" for (o, _) in rr.values()):
            print("VIOLATION property=%s replay=%s" % (prop, path))
            return 1
        return 0
    sc = find_scenario(d)
    if sc is None:
        print("no replayable scenario recorded in %s" % path)
        return 2
    confirmed, rep = native.scenario(_Out(prop), sc["name"], sc["params"])
    print(json.dumps(rep)[:1500])
    verdicts = [v for k, v in rep.items() if k != "_scenario" and isinstance(v, dict)]
    if confirmed or any(v.get("panicked") for v in verdicts):
        print("VIOLATION property=%s replay=%s" % (prop, path))
        return 1
    return 0
