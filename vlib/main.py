"""Entry point:  check <ID> [--tier quick|thorough] [--replay <path>]"""
import argparse
import importlib
import json
import os
import sys

from . import common as C


def main():
    ap = argparse.ArgumentParser()
    ap.add_argument("prop")
    ap.add_argument("--tier", default=os.environ.get("VERIF_TIER", "quick"), choices=["quick", "thorough"])
    ap.add_argument("--replay", default=None)
    a = ap.parse_args()
    prop = a.prop.upper()
    try:
        mod = importlib.import_module("vlib.checks.%s" % prop.lower())
    except ModuleNotFoundError:
        print("no check for %s (see MANIFEST.json not_applicable)" % prop)
        return 64
    if a.replay:
        from . import replaycmd
        return replaycmd.replay_file(a.replay)
    out = C.Outcome(prop, a.tier)
    mod.run(out, a.tier)
    return out.finish()


if __name__ == "__main__":
    sys.exit(main())
