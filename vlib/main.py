"""Entry point:  check <ID> [--tier quick|thorough] [--replay <path>]"""
import argparse
import importlib
import json
import os
import sys

from . import common as C


def main():
    ap = argparse.ArgumentParser()
    ap.add_argument("prop")
    ap.add_argument("--tier", default=os.environ.get("VERIF_TIER", "quick"), choices=["quick", "thorough"])
    ap.add_argument("--replay", default=None)
    a = ap.parse_args()
    prop = a.prop.upper()
    try:
        mod = importlib.import_module("vlib.checks.%s" % prop.lower())
    except ModuleNotFoundError:
        print("no check for %s (see MANIFEST.json not_applicable)" % prop)
        return 64
    if a.replay:
        from . import replaycmd
        return replaycmd.replay_file(a.replay)
    out = C.Outcome(prop, a.tier)
    try:
        mod.run(out, a.tier)
    except Exception as e:          # a crash of the machinery is never a pass and never a violation
        import traceback
        tb = traceback.format_exc()
        out.notes.append("check aborted: %s" % tb[-1500:])
        out.inconc("the check aborted before all obligations were decided: %s: %s" % (type(e).__name__, str(e)[:300]))
    return out.finish()


if __name__ == "__main__":
    sys.exit(main())
