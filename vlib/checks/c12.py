"""C12 — layouts are ordered and every entry lies inside its 256-bit slot: local mechanisms.

L1 (Kani)   StorageLayout::add keeps slots ordered by (full 256-bit index, offset) and is a permutation of what was
            added; index conversions keep every bit; U256Wrapper's order is the unsigned 256-bit order.
L2 (mirsmt) the offset producer of packed entries: every SubWord produced by the sub-word lifting lies inside the
            word (offset < 256, offset + size <= 256) for ALL mask positions and ALL 256-bit shift constants.
L2 (Kani)   MulShiftedValue::which_power_of_2 returns k exactly for 2^k and None for 2^k + 2^j (k < 16 quick, < 64 thorough).
"""
import time

import z3

from .. import common as C
from .. import kani, mirrun, native
from . import c01
from mirsmt.interp import Agg, Obj, Unsupported
from mirsmt.oblig import ev

L1 = ["layout_add_1", "layout_add_2", "layout_add_3", "layout_index_conversions"]
L1_THOROUGH = ["layout_add_4"]


def run(out, tier):
    eng = mirrun.load_engine(out)
    out.functions += ["layout::StorageLayout::add", "utility::U256Wrapper::{from,cmp,eq}", "tc::lift::sub_word::insert_sub_words"]
    out.bounds += ["L1: 1..3 (quick) / 4 (thorough) insertions with symbolic 256-bit indices and usize offsets",
                   "L2: one call of insert_sub_words; mask = any non-empty run of ones inside the word, shift = any usize "
                   "(the low 64 bits of any constant)"]
    out.assumptions += ["get_region's result is any (offset, length) with length >= 1 and offset + length <= 256 (what its two scans "
                        "guarantee by construction; the bitvec iteration itself is not encoded)",
                        "span offsets accumulated in abi_type_for_impl / the packed merge arm are outside (type-checker state), "
                        "hence not `every entry of every program`"]
    # ---- L2 on the MIR ---------------------------------------------------------------------------------------------
    t0 = time.time()
    res = c01.site_sub_word(_Quiet(out), eng)
    if res is not None:
        ex, body, (MO, ML, SH), template = res
        try:
            paths = ex.explore(body)
            bad = None
            n_sub = 0
            for p in paths:
                if p.kind != "return":
                    continue
                r = p.ret[0]
                if not (isinstance(r, Agg) and r.variant == "Some"):
                    continue
                pl = r.fields[0]
                if not (isinstance(pl, Agg) and pl.variant == "SubWord"):
                    continue
                n_sub += 1
                io = eng.src.field_index("vm::value::SymbolicValueData", "offset", "SubWord")
                isz = eng.src.field_index("vm::value::SymbolicValueData", "size", "SubWord")
                off, size = p.ctx.force(pl.fields[io]).e, p.ctx.force(pl.fields[isz]).e
                s = z3.Solver()
                for c_ in p.pc:
                    s.add(c_)
                inside = z3.And(z3.ULT(off, 256), z3.ULE(size, 256), z3.ULE(off + size, 256), z3.UGE(size, 1))
                s.add(z3.Not(inside))
                if s.check() == z3.sat:
                    bad = (p, s.model())
                    break
            if bad is not None:
                p, m = bad
                params = template(m)
                confirmed, rep = native.scenario(out, "analyze", params)
                outside = any(isinstance(v, dict) and (v.get("out_of_slot") or v.get("panicked")) for k_, v in rep.items() if k_ != "_scenario")
                what = "sub-word lifting produces a SubWord that starts or ends outside the 256-bit word"
                if outside:
                    out.obligation("L2.sub_word_inside_word", "mirsmt", "violated", time.time() - t0, witness=True, replay=rep, program=params)
                    out.violation(C.Violation(key="sub-word-outside-word", what="%s — layout entry outside its slot for %s" % (what, params["hex"]),
                                              replay={"engine": "mirsmt", "program": params, "native": rep}))
                else:
                    out.obligation("L2.sub_word_inside_word", "mirsmt", "sat-unconfirmed", time.time() - t0, witness=False, replay=rep, program=params)
                    out.inconc("L2: a SubWord outside the word is producible but no out-of-slot layout entry was observed for the template")
            elif n_sub == 0:
                out.obligation("L2.sub_word_inside_word", "mirsmt", "vacuous", time.time() - t0, witness=False)
                out.inconc("L2: no path of insert_sub_words produces a SubWord (vacuous)")
            else:
                out.obligation("L2.sub_word_inside_word", "mirsmt", "holds", time.time() - t0, witness=True, paths=n_sub,
                               note="every SubWord built by insert_sub_words has offset < 256 and offset + size <= 256, for every mask and shift")
        except Unsupported as e:
            out.obligation("L2.sub_word_inside_word", "mirsmt", "inconclusive", 0, witness=False, note=str(e))
            out.inconc("L2: %s" % e)
    # ---- L3 on the MIR: every mutator of the layout keeps it ordered ---------------------------------------------------
    layout_mutators(out, eng)
    packed_flattening(out, eng)
    packed_spans_inside_word(out, eng)
    # ---- L1 (+ which_power_of_2) with Kani ---------------------------------------------------------------------------
    names = L1 + ["pow2_exact_16", "pow2_rejects_16"] + (L1_THOROUGH + ["pow2_exact_64", "pow2_rejects_64"] if tier == "thorough" else [])
    out.bounds.append("which_power_of_2: 2^k -> Some(k) and 2^k + 2^j -> None for k < 16 (quick) / k < 64 (thorough); "
                      "the full 256-step loop did not finish under CBMC in 1800 s")
    kani.run_family(out, names + ["layout_twin"], expect_fail=["layout_twin"], tier=tier, timeout_s=150 if tier == "quick" else 1800)


def layout_mutators(out, eng):
    """L3: `slots` is private to src/layout.rs; every function there that receives the layout by `&mut` (found in the MIR
    on every run) must leave the vector ordered by (index, offset), assuming it was ordered before: an insertion has to
    be followed by a sort whose key closure returns exactly (slot.index, slot.offset)."""
    import re
    from mirsmt.interp import Cell, Lazy, Ref, UNIT
    from mirsmt.summaries import obj_at, call_closure, load
    from mirsmt.containers import mk_vec
    muts = []
    for n, f in eng.fns.items():
        if "src/layout.rs" not in n or "::test" in n or not f.args:
            continue
        if re.match(r"^&mut (\w+::)*StorageLayout$", f.args[0][1].strip()):
            muts.append(f)
    out.functions.append("layout.rs: every fn taking `&mut StorageLayout` (%s)" % ", ".join(sorted(f.name.split("::")[-1] for f in muts)))
    if not muts:
        out.inconc("L3: no mutator of StorageLayout found in the MIR dump")
        return

    def vec_of(ctx, r):
        v = obj_at(ctx, r, mk_vec)
        return v if isinstance(v, Obj) and v.kind == "vec" else None

    def push(ctx, a, ty, c):
        v = vec_of(ctx, a[0])
        if v is None:
            return NotImplemented
        v.pushed.append(a[1])
        v.sorted = False
        return UNIT

    def unordered(ctx, a, ty, c):
        v = vec_of(ctx, a[0])
        if v is None:
            return NotImplemented
        v.sorted = False
        return NotImplemented

    def sort_by_key(ctx, a, ty, c):
        v = vec_of(ctx, a[0])
        if v is None:
            return NotImplemented
        probe = Cell(Lazy("layout::StorageSlot", "probe"), "probe")
        k = call_closure(ctx, a[1], [Ref(probe, ())])
        names = []
        if isinstance(k, Agg):
            for i in (0, 1):
                x = k.fields.get(i)
                x = load(ctx, x) if isinstance(x, Ref) else x
                nm = getattr(x, "name", None)
                if nm is None and hasattr(x, "e"):
                    nm = str(x.e)
                if nm is None and isinstance(x, Agg) and 0 in x.fields:
                    inner = x.fields[0]
                    nm = getattr(inner, "name", None) or (str(inner.e) if hasattr(inner, "e") else None)
                names.append(nm)
        ok_key = len(names) == 2 and str(names[0]).startswith("probe.0") and str(names[1]).startswith("probe.1") and len(k.fields) == 2
        v.sorted = bool(ok_key)
        if not ok_key:
            v.sort_key = names
        return UNIT
    extra = [(r"^Vec::<.*StorageSlot>::push$", push), (r"^Vec::<.*StorageSlot>::(insert|extend|append|swap|reverse|truncate_front)", unordered),
             (r"^(core|std|alloc)::slice::<impl \[.*\]>::(sort_by_key|sort_by_cached_key|sort_unstable_by_key)::<.*>$", sort_by_key)]
    for f in muts:
        short = f.name.split("::")[-1]
        oid = "L3.layout_stays_ordered[%s]" % short
        t0 = time.time()
        ex = eng.explorer(extra=extra, havoc_unknown=True, max_visits=3, max_seconds=60)

        def body(ctx, f=f):
            lay = Cell(Lazy("layout::StorageLayout", "layout"), "layout")
            args = [Ref(lay, (), True)] + [Lazy(t, "arg%d" % i) for i, (_, t) in enumerate(f.args[1:])]
            r = ctx.run_fn(f, args)
            return r, lay, ctx
        try:
            paths = ex.explore(body)
        except Unsupported as e:
            out.obligation(oid, "mirsmt", "inconclusive", time.time() - t0, witness=False, note=str(e))
            out.inconc("%s: %s" % (oid, e))
            continue
        bad, seen = None, 0
        for p in paths:
            if p.kind != "return":
                continue
            seen += 1
            lay = p.ret[1].v
            v = lay.fields.get(0) if isinstance(lay, Agg) else None
            if isinstance(v, Obj) and v.kind == "vec" and not getattr(v, "sorted", True):
                key = getattr(v, "sort_key", None)
                bad = ("`%s` changes the slot vector and returns without sorting it by (index, offset)" % short) if key is None else \
                      ("`%s` sorts the slot vector by %s, not by (index, offset)" % (short, key))
        dt = time.time() - t0
        if bad is None and seen:
            out.obligation(oid, "mirsmt", "holds", dt, witness=True, paths=seen,
                           note="from an ordered layout, every returning path leaves `slots` ordered by (index, offset)")
        elif bad is None:
            out.obligation(oid, "mirsmt", "vacuous", dt, witness=False)
            out.inconc("%s: no returning path" % oid)
        else:
            confirmed, rep = native.scenario(out, "layout_family_sorted", {})
            if confirmed:
                out.obligation(oid, "mirsmt", "violated", dt, witness=True, note=bad, replay=rep)
                out.violation(C.Violation(key="layout-mutator-breaks-order:%s" % short, what="%s: %s" % (oid, bad), replay={"engine": "mirsmt", "native": rep}))
            else:
                out.obligation(oid, "mirsmt", "cex-not-reproduced", dt, witness=False, note=bad, replay=rep)
                out.inconc("%s: %s (no unordered layout observed natively: %s)" % (oid, bad, str(rep)[:200]))


def packed_flattening(out, eng):
    """L4: where abi_type_for_impl flattens a nested packed type it maps every nested entry (type, position) through a
    closure; L2 guarantees that positions are bit positions inside the 256-bit word, at every nesting level.  Decided: for
    every parent span offset and nested position inside the word, the flattened position is inside the word too."""
    import re
    from mirsmt.interp import Cell, Int, Lazy, Ref
    cands = [f for n, f in eng.fns.items() if re.search(r"abi_type_for_impl::\{closure#\d+\}$", n)
             and len(f.args) == 2 and re.sub(r"\s", "", f.args[1][1]) == "(AbiType,usize)" and re.sub(r"\s", "", f.ret or "") == "(AbiType,usize)"]
    if not cands:
        out.notes.append("L4: abi_type_for_impl has no (AbiType, usize) -> (AbiType, usize) flattening closure; nothing to decide")
        return
    OFF, POS = z3.BitVec("parent_span_offset", 64), z3.BitVec("nested_position", 64)
    for f in cands:
        oid = "L4.packed_flattening_inside_word"
        t0 = time.time()
        ex = eng.explorer(havoc_unknown=True, max_visits=2, max_seconds=60)

        def body(ctx, f=f):
            env_ty = f.args[0][1].strip()
            # the captured parent offset may be held by value or by reference
            cap = Ref(Cell(Int(OFF, 64), "offset"), ()) if _captures_by_ref(f) else Int(OFF, 64)
            env = Agg("closure-env", {0: cap})
            envv = Ref(Cell(env, "env"), (), True) if env_ty.startswith("&") else env
            arg = Agg("(tuple)", {0: Lazy("AbiType", "ty"), 1: Int(POS, 64)})
            r = ctx.run_fn(f, [envv, arg])
            return r, ctx
        try:
            paths = ex.explore(body)
        except Unsupported as e:
            out.obligation(oid, "mirsmt", "inconclusive", time.time() - t0, witness=False, note=str(e))
            out.inconc("%s: %s" % (oid, e))
            continue
        bad, seen = None, 0
        pre = [z3.ULT(OFF, 256), z3.ULT(POS, 256)]
        for p in paths:
            s_ = z3.Solver()
            for c_ in p.pc + pre:
                s_.add(c_)
            if p.kind == "panic":
                if s_.check() == z3.sat:
                    bad = ("panic", s_.model())
                continue
            if p.kind != "return":
                continue
            seen += 1
            r = p.ret[0]
            pos = p.ret[1].force(r.fields[1]).e
            s_.add(z3.UGE(pos, 256))
            if s_.check() == z3.sat:
                bad = ("outside", s_.model())
        dt = time.time() - t0
        what = "flattening a nested packed type adds the parent span's offset to positions that are already bit positions in the word"
        if bad is None and seen:
            out.obligation(oid, "mirsmt", "holds", dt, witness=True, paths=seen)
        elif bad is None:
            out.obligation(oid, "mirsmt", "vacuous", dt, witness=False)
            out.inconc("%s: no returning path" % oid)
        else:
            kind, m = bad
            confirmed, rep = native.scenario(out, "layout_family_sorted", {"check": 2})
            wit = "parent span at %d, nested entry at %d -> flattened to %d" % (ev(m, OFF), ev(m, POS), ev(m, OFF) + ev(m, POS))
            if confirmed:
                out.obligation(oid, "mirsmt", "violated", dt, witness=True, note="%s (%s)" % (what, wit), replay=rep)
                out.violation(C.Violation(key="packed-flattening-leaves-the-word", what="%s: %s (%s)" % (oid, what, wit),
                                          replay={"engine": "mirsmt", "native": rep}))
            else:
                out.obligation(oid, "mirsmt", "cex-not-reproduced", dt, witness=False, note=wit, replay=rep)
                out.inconc("%s: %s, but no layout entry outside its slot was observed natively" % (oid, wit))


def packed_spans_inside_word(out, eng):
    """L5: the packed-encoding lift accepts a set of spans only after its validity loop; one iteration of that loop, from an
    ARBITRARY loop state and an arbitrary span (offset, size), must leave `spans_are_valid` false whenever the span ends
    beyond bit 256 (a `Shifted` element carries the exponent of any power of two the bytecode multiplies by)."""
    import re
    from mirsmt.interp import Bool, Cell, Int, Lazy, Ref
    from .c13 import loop_head
    f = eng.fns.get("lift_packed_encodings")
    oid = "L5.packed_spans_inside_word"
    if f is None:
        out.notes.append("L5: lift_packed_encodings not found; nothing to decide")
        return
    valid_l, last_l = f.debug.get("spans_are_valid"), f.debug.get("last_position")
    if not valid_l or not last_l:
        out.inconc("L5: the validity loop's variables were not found in lift_packed_encodings")
        return
    # the loop: the innermost one around a block that assigns `last_position`
    site = None
    for bb, b in f.blocks.items():
        if b.cleanup:
            continue
        for st in b.stmts:
            if re.match(r"^%s = " % re.escape(last_l), st.strip()) and "const 0_usize" not in st:
                site = bb
    head = loop_head(f, site) if site else None
    if head is None:
        out.inconc("L5: the validity loop was not found")
        return
    OFF, SIZE = z3.BitVec("span_offset", 64), z3.BitVec("span_size", 64)
    t0 = time.time()

    def span_next(ctx, a, ty, c):
        if ctx.choose(2) == 1:
            from mirsmt.summaries import none
            return none(ty)
        from mirsmt.summaries import some
        m = re.match(r"^(?:[\w:]+::)?Option<&(.*)>$", ty.strip())
        span = Agg(m.group(1) if m else "vm::value::PackedSpan<()>", {}, None, "span")
        cell = Cell(span, "span")
        ctx.span_cell = cell
        return some(ty, Ref(cell, ()))
    ex = eng.explorer(extra=[(r"^<.*Iter<'_, .*PackedSpan<.*>> as Iterator>::next$", span_next)], havoc_unknown=True, max_visits=3, max_seconds=60)

    def body(ctx):
        frame = {"locals": {}, "fn": f, "visits": {}}
        for l, t in f.locals.items():
            t = t.strip()
            frame["locals"][l] = Cell(Bool(False), l) if t == "bool" and l != valid_l else Cell(Lazy(t, "L%s" % l), l)
        frame["locals"][valid_l].v = Bool(z3.Bool("valid_before"))
        ctx.inline_filter = lambda name: False
        ctx.stop_at = {head: 2}
        ctx.frame0 = frame
        r = ctx.run_fn(f, [], start=head, frame=frame)
        return r, ctx
    try:
        paths = ex.explore(body)
    except Unsupported as e:
        out.obligation(oid, "mirsmt", "inconclusive", time.time() - t0, witness=False, note=str(e))
        out.inconc("%s: %s" % (oid, e))
        return
    bad, seen = None, 0
    for p in paths:
        if p.kind != "cut":
            continue
        ctx = p.ctx
        cell = getattr(ctx, "span_cell", None)
        if cell is None:
            continue
        seen += 1
        span = cell.v
        io = eng.src.field_index("vm::value::PackedSpan", "offset")
        isz = eng.src.field_index("vm::value::PackedSpan", "size")
        # never-inspected fields of the span are the named symbols span.<index>
        off = ctx.force(span.fields[io]).e if io in span.fields else z3.BitVec("span.%d" % io, 64)
        size = ctx.force(span.fields[isz]).e if isz in span.fields else z3.BitVec("span.%d" % isz, 64)
        valid_after = ctx.force(ctx.frame0["locals"][valid_l].v)
        s_ = z3.Solver()
        for c_ in p.pc:
            s_.add(c_)
        s_.add(valid_after.e, z3.ULE(off, 255), z3.ULE(size, 256), z3.UGT(off + size, 256))
        if s_.check() == z3.sat:
            m = s_.model()
            bad = ("a span at bit %d of %d bits is accepted although it ends beyond bit 256" % (ev(m, off), ev(m, size)), m)
    dt = time.time() - t0
    what = "the packed-encoding lift accepts spans that end beyond the 256-bit word"
    if bad is None and seen:
        out.obligation(oid, "mirsmt", "holds", dt, witness=True, paths=seen, head=head,
                       note="one iteration of the validity loop from an arbitrary state: `spans_are_valid` stays true only for a span inside the word")
    elif bad is None:
        out.obligation(oid, "mirsmt", "vacuous", dt, witness=False)
        out.inconc("%s: no completed iteration of the validity loop explored" % oid)
    else:
        confirmed, rep = native.scenario(out, "layout_family_sorted", {"check": 3})
        if confirmed:
            out.obligation(oid, "mirsmt", "violated", dt, witness=True, note="%s: %s" % (what, bad[0]), replay=rep)
            out.violation(C.Violation(key="packed-span-outside-word", what="%s: %s (%s)" % (oid, what, bad[0]), replay={"engine": "mirsmt", "native": rep}))
        else:
            out.obligation(oid, "mirsmt", "cex-not-reproduced", dt, witness=False, note=bad[0], replay=rep)
            out.inconc("%s: %s, but no layout entry outside its slot was observed natively" % (oid, bad[0]))


def _captures_by_ref(f):
    """does the closure body dereference its first upvar?  ((*_1).0: &usize) vs ((*_1).0: usize)"""
    import re
    for b in f.blocks.values():
        for st in b.stmts:
            if re.search(r"\(\(\*_1\)\.0: &", st) or re.search(r"\(_1\.0: &", st):
                return True
    return False


class _Quiet:
    """site_sub_word records a C01 obligation; under C12 only its exploration set-up is reused."""

    def __init__(self, out):
        self._out = out
        self.prop = out.prop

    def obligation(self, *a, **k):
        pass

    def violation(self, *a, **k):
        pass

    def inconc(self, msg):
        self._out.notes.append("setup: " + msg)

    @property
    def notes(self):
        return self._out.notes
