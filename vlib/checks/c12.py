"""C12 — layouts are ordered and every entry lies inside its 256-bit slot: local mechanisms.

L1 (Kani)   StorageLayout::add keeps slots ordered by (full 256-bit index, offset) and is a permutation of what was
            added; index conversions keep every bit; U256Wrapper's order is the unsigned 256-bit order.
L2 (mirsmt) the offset producer of packed entries: every SubWord produced by the sub-word lifting lies inside the
            word (offset < 256, offset + size <= 256) for ALL mask positions and ALL 256-bit shift constants.
L2 (Kani)   MulShiftedValue::which_power_of_2 returns k exactly for 2^k and None for 2^k + 2^j (k < 16 quick, < 64 thorough).
"""
import time

import z3

from .. import common as C
from .. import kani, mirrun, native
from . import c01
from mirsmt.interp import Agg, Obj, Unsupported
from mirsmt.oblig import ev

L1 = ["layout_add_1", "layout_add_2", "layout_add_3", "layout_index_conversions"]
L1_THOROUGH = ["layout_add_4"]


def run(out, tier):
    eng = mirrun.load_engine(out)
    out.functions += ["layout::StorageLayout::add", "utility::U256Wrapper::{from,cmp,eq}", "tc::lift::sub_word::insert_sub_words"]
    out.bounds += ["L1: 1..3 (quick) / 4 (thorough) insertions with symbolic 256-bit indices and usize offsets",
                   "L2: one call of insert_sub_words; mask = any non-empty run of ones inside the word, shift = any usize "
                   "(the low 64 bits of any constant)"]
    out.assumptions += ["get_region's result is any (offset, length) with length >= 1 and offset + length <= 256 (what its two scans "
                        "guarantee by construction; the bitvec iteration itself is not encoded)",
                        "span offsets accumulated in abi_type_for_impl / the packed merge arm are outside (type-checker state), "
                        "hence not `every entry of every program`"]
    # ---- L2 on the MIR ---------------------------------------------------------------------------------------------
    t0 = time.time()
    res = c01.site_sub_word(_Quiet(out), eng)
    if res is not None:
        ex, body, (MO, ML, SH), template = res
        try:
            paths = ex.explore(body)
            bad = None
            n_sub = 0
            for p in paths:
                if p.kind != "return":
                    continue
                r = p.ret[0]
                if not (isinstance(r, Agg) and r.variant == "Some"):
                    continue
                pl = r.fields[0]
                if not (isinstance(pl, Agg) and pl.variant == "SubWord"):
                    continue
                n_sub += 1
                io = eng.src.field_index("vm::value::SymbolicValueData", "offset", "SubWord")
                isz = eng.src.field_index("vm::value::SymbolicValueData", "size", "SubWord")
                off, size = p.ctx.force(pl.fields[io]).e, p.ctx.force(pl.fields[isz]).e
                s = z3.Solver()
                for c_ in p.pc:
                    s.add(c_)
                inside = z3.And(z3.ULT(off, 256), z3.ULE(size, 256), z3.ULE(off + size, 256), z3.UGE(size, 1))
                s.add(z3.Not(inside))
                if s.check() == z3.sat:
                    bad = (p, s.model())
                    break
            if bad is not None:
                p, m = bad
                params = template(m)
                confirmed, rep = native.scenario(out, "analyze", params)
                outside = any(isinstance(v, dict) and (v.get("out_of_slot") or v.get("panicked")) for k_, v in rep.items() if k_ != "_scenario")
                what = "sub-word lifting produces a SubWord that starts or ends outside the 256-bit word"
                if outside:
                    out.obligation("L2.sub_word_inside_word", "mirsmt", "violated", time.time() - t0, witness=True, replay=rep, program=params)
                    out.violation(C.Violation(key="sub-word-outside-word", what="%s — layout entry outside its slot for %s" % (what, params["hex"]),
                                              replay={"engine": "mirsmt", "program": params, "native": rep}))
                else:
                    out.obligation("L2.sub_word_inside_word", "mirsmt", "sat-unconfirmed", time.time() - t0, witness=False, replay=rep, program=params)
                    out.inconc("L2: a SubWord outside the word is producible but no out-of-slot layout entry was observed for the template")
            elif n_sub == 0:
                out.obligation("L2.sub_word_inside_word", "mirsmt", "vacuous", time.time() - t0, witness=False)
                out.inconc("L2: no path of insert_sub_words produces a SubWord (vacuous)")
            else:
                out.obligation("L2.sub_word_inside_word", "mirsmt", "holds", time.time() - t0, witness=True, paths=n_sub,
                               note="every SubWord built by insert_sub_words has offset < 256 and offset + size <= 256, for every mask and shift")
        except Unsupported as e:
            out.obligation("L2.sub_word_inside_word", "mirsmt", "inconclusive", 0, witness=False, note=str(e))
            out.inconc("L2: %s" % e)
    # ---- L1 (+ which_power_of_2) with Kani ---------------------------------------------------------------------------
    names = L1 + ["pow2_exact_16", "pow2_rejects_16"] + (L1_THOROUGH + ["pow2_exact_64", "pow2_rejects_64"] if tier == "thorough" else [])
    out.bounds.append("which_power_of_2: 2^k -> Some(k) and 2^k + 2^j -> None for k < 16 (quick) / k < 64 (thorough); "
                      "the full 256-step loop did not finish under CBMC in 1800 s")
    kani.run_family(out, names + ["layout_twin"], expect_fail=["layout_twin"], tier=tier, timeout_s=150 if tier == "quick" else 1800)


class _Quiet:
    """site_sub_word records a C01 obligation; under C12 only its exploration set-up is reused."""

    def __init__(self, out):
        self._out = out
        self.prop = out.prop

    def obligation(self, *a, **k):
        pass

    def violation(self, *a, **k):
        pass

    def inconc(self, msg):
        self._out.notes.append("setup: " + msg)

    @property
    def notes(self):
        return self._out.notes
