"""C10 — disassembly is total, lossless and keeps byte offsets (Engine B inductive step + Engine A for PushN).

The loop of `disassembler::disassemble` is cut at its head.  From an ARBITRARY state satisfying the invariant I
(below) one byte step re-establishes I, and the end-of-input block discharges the postcondition; the prologue
establishes I.  This covers every input length below 2^32, all byte values.

I:  ops encodes exactly bytes[0..P) with one entry per byte (abstract prefix of P entries);
    no push open  => push_size = remaining = 0, push_bytes empty, offset = P
    push open     => 1 <= push_size <= 32, remaining >= 1, remaining + |push_bytes| = push_size,
                     last_push = 0x5f + push_size = bytes[P], last_push_start = P, offset = P + 1 + |push_bytes|,
                     push_bytes[j] = bytes[P+1+j]
"""
import re
import time

import z3

from .. import catalog, common as C
from .. import kani, mirrun, native
from .c03 import verdict, variant
from mirsmt.interp import Agg, Bool, Cell, Int, Lazy, Obj, PathEnd, Ref, Unsupported, UNIT, Ctx
from mirsmt.oblig import Prover, ev
from mirsmt.summaries import err, ok

B = z3.Array("bytes.arr", z3.BitVecSort(64), z3.BitVecSort(8))
L = z3.BitVec("bytes.len", 64)
P = z3.BitVec("P", 64)
PB = z3.Array("push_bytes.arr", z3.BitVecSort(64), z3.BitVecSort(8))
PBL = z3.BitVec("push_bytes.len", 64)
LAST = z3.BitVec("last_push", 8)
START = z3.BitVec("last_push_start", 32)
SIZE = z3.BitVec("push_size", 8)
REM = z3.BitVec("remaining", 8)
OFF = z3.BitVec("offset", 64)
JX = z3.BitVec("j", 64)        # universally quantified index (fresh)


# "disassembles successfully" (C10): a panic inside the real disassembler on the solver's bytes is itself the
# violation, whatever else the scenario could or could not compare after it
_PANIC = lambda d: bool(d.get("panicked"))


def invariant(p, off, size, rem, last, start, pbl, pb):
    no_push = z3.And(size == 0, rem == 0, pbl == 0, off == p)
    open_push = z3.And(z3.UGE(size, 1), z3.ULE(size, 32), z3.UGE(rem, 1),
                       z3.ZeroExt(56, rem) + pbl == z3.ZeroExt(56, size), z3.ULT(pbl, 32),
                       last == z3.BitVecVal(0x5f, 8) + size, z3.Select(B, p) == last,
                       z3.ZeroExt(32, start) == p, off == p + 1 + pbl,
                       # push_bytes[j] == bytes[P+1+j] for all j < |push_bytes| (< 32): instantiated completely
                       z3.And([z3.Implies(z3.ULT(z3.BitVecVal(k, 64), pbl),
                                          z3.Select(pb, z3.BitVecVal(k, 64)) == z3.Select(B, p + 1 + z3.BitVecVal(k, 64))) for k in range(32)]))
    return z3.And(z3.ULE(off, L), z3.ULT(L, z3.BitVecVal(1 << 32, 64)), z3.ULE(p, off), z3.If(size == 0, no_push, open_push))


def pushn_summary(ctx, a, ty, c):
    """Contract of PushN::new, proved for the real function by the Kani harnesses pushn_*:
    Ok(PushN{n, data}) iff 1 <= n <= 32 and |data| == n; encode() == [0x5f + n] ++ data."""
    n = ctx.force(a[0])
    data = a[1]
    if not (isinstance(data, Obj) and data.kind == "bytes"):
        raise Unsupported("PushN::new on %r" % (data,))
    good = z3.And(z3.UGE(n.e, 1), z3.ULE(n.e, 32), data.len == z3.ZeroExt(56, n.e))
    if ctx.branch([good, z3.Not(good)]) == 0:
        return ok(ty, Obj("pushn", "opcode::memory::PushN", n=n.e, arr=data.arr, len=data.len))
    return err(ty, Agg("error::disassembly::Error", {0: n}, "InvalidPushSize"))


def elem_of(v):
    if isinstance(v, Agg) and "inner" in v.attrs:
        return v.attrs["inner"].v
    return v


def truncated_push(out, eng, pr, f, enc, extra, k):
    oid = "T.truncated_push_%d_immediates" % k
    ex = eng.explorer(extra=extra, max_visits=60)
    width = z3.BitVec("push_width", 8)          # n of PUSHn, k < n <= 32
    arr = z3.Store(z3.K(z3.BitVecSort(64), z3.BitVecVal(0, 8)), z3.BitVecVal(0, 64), z3.BitVecVal(0x5f, 8) + width)
    imm = [z3.BitVec("imm%d" % i, 8) for i in range(k)]
    for i, b in enumerate(imm):
        arr = z3.Store(arr, z3.BitVecVal(i + 1, 64), b)
    pre = [z3.UGT(width, k), z3.ULE(width, 32)]

    def body(ctx):
        ctx.assume(z3.And(pre))
        bo = Obj("bytes", "[u8]", name="tbytes", arr=arr, len=z3.BitVecVal(k + 1, 64))
        r = ctx.run_fn(f, [Ref(Cell(bo, "bytes"), ())])
        return r, ctx
    try:
        paths = ex.explore(body)
    except Unsupported as e:
        out.obligation(oid, "mirsmt", "inconclusive", 0, witness=False, note=str(e))
        out.inconc("%s: %s" % (oid, e))
        return

    def post(p):
        if p.kind != "return":
            return z3.BoolVal(False)
        r, ctx = p.ret
        if variant(r) != "Ok":
            return z3.BoolVal(False)
        v = r.fields[0]
        if not (isinstance(v, Obj) and v.kind == "vec"):
            return z3.BoolVal(False)
        try:
            entries = enc.entries(ctx, v.pushed)
        except Unsupported:
            return z3.BoolVal(False)
        if len(entries) != k + 1:
            return z3.BoolVal(False)
        conds = []
        want = [z3.BitVecVal(0x5f, 8) + width] + imm
        for e, w in zip(entries, want):
            # each byte of the cut-short push behaves as INVALID carrying its own value: never a live instruction
            conds.append(z3.BoolVal(e[0] == "byte" and e[2] == "Invalid"))
            if e[0] == "byte":
                conds.append(e[1] == w)
        return z3.And(conds)

    def replay(p, model):
        bs = [0x5f + ev(model, width)] + [ev(model, b) for b in imm]
        return native.scenario(out, "truncated_push", {"hex": bytes(bs).hex()}, judge=_PANIC)
    verdict(out, pr, oid, paths, post, pre=pre, kinds=("return", "panic", "unreachable", "loop-bound"), replay=replay,
            key="truncated-push-bytes-become-instructions",
            what="a PUSHn followed by only %d of its n immediate bytes disassembles to INVALID entries carrying those bytes" % k)


class Enc:
    """Encoding of appended instruction entries, using the real `as_byte` bodies from the MIR."""

    def __init__(self, eng):
        self.eng = eng
        self.cache = {}

    def as_byte(self, ctx, v):
        ty = v.ty
        key = ty
        if key in self.cache and not v.fields:
            return self.cache[key]
        callee = "<%s as Opcode>::as_byte" % ty
        f = ctx.resolve(callee)
        if f is None:
            raise Unsupported("no as_byte for %s" % ty)
        saved = (ctx.depth,)
        ctx.depth = 1
        r = ctx.run_fn(f, [Ref(Cell(v, "op"), ())])
        ctx.depth = saved[0]
        r = ctx.force(r)
        if not hasattr(r, "e"):
            raise Unsupported("as_byte of %r returned %r" % (v, r))
        if not v.fields:
            self.cache[key] = r.e
        return r.e

    def entries(self, ctx, pushed):
        """-> list of ('byte', z3 expr) | ('push', n, arr, len) | ('nop',)"""
        out = []
        for x in pushed:
            v = elem_of(x)
            if isinstance(v, Obj) and v.kind == "pushn":
                out.append(("push", v.n, v.arr, v.len))
            elif isinstance(v, Agg) and v.ty.split("::")[-1] == "Nop":
                out.append(("nop",))
            elif isinstance(v, Agg):
                out.append(("byte", self.as_byte(ctx, v), v.ty.split("::")[-1]))
            else:
                raise Unsupported("instruction entry %r" % (v,))
        return out


def encodes(entries, p0):
    """formula: the appended entries re-encode bytes[p0 ..), one entry per byte; returns (formula, count)"""
    conds = []
    pos = p0          # byte position the next *encoded* byte must match
    idx = 0           # number of entries so far
    i = 0
    while i < len(entries):
        e = entries[i]
        if e[0] == "byte":
            conds.append(z3.Select(B, pos) == e[1])
            pos = pos + 1
            idx += 1
            i += 1
        elif e[0] == "push":
            _, n, arr, ln = e
            conds.append(z3.Select(B, pos) == z3.BitVecVal(0x5f, 8) + n)
            conds.append(ln == z3.ZeroExt(56, n))
            conds.append(z3.And([z3.Implies(z3.ULT(z3.BitVecVal(k, 64), ln),
                                            z3.Select(arr, z3.BitVecVal(k, 64)) == z3.Select(B, pos + 1 + z3.BitVecVal(k, 64))) for k in range(33)]))
            # must be followed by exactly n Nop entries (the immediates)
            k = 0
            while i + 1 + k < len(entries) and entries[i + 1 + k][0] == "nop":
                k += 1
            conds.append(n == z3.BitVecVal(k, 8))
            pos = pos + 1 + z3.BitVecVal(k, 64)
            idx += 1 + k
            i += 1 + k
        else:
            conds.append(z3.BoolVal(False))      # a Nop that is not a push immediate
            i += 1
    return z3.And(conds) if conds else z3.BoolVal(True), idx


def run(out, tier):
    eng = mirrun.load_engine(out)
    pr = Prover(out)
    out.functions += ["disassembly::disassembler::disassemble (prologue, one loop iteration from an arbitrary invariant state, epilogue)",
                      "disassembly::disassembler::add_op", "every `Opcode::as_byte` body reached", "opcode::memory::{DupN,SwapN}::new, opcode::environment::LogN::new",
                      "opcode::control::Invalid::new", "opcode::memory::PushN::{new,encode,bytes_as_word} (Kani)"]
    out.bounds += ["inductive: all byte strings of every length 1 <= len < 2^32 (loop cut at its head; invariant I in /verif/vlib/checks/c10.py)",
                   "PushN (Kani): n any u8, immediates of length 0,1,2,31,32,33 (quick) / 0..=33 (thorough), contents symbolic"]
    out.assumptions += ["inputs of 2^32 bytes or more are outside (they are rejected as BytecodeTooLarge)",
                        "PushN::new / encode are used through their contract in the MIR encoding; the contract itself is decided by the Kani harnesses pushn_*",
                        "InstructionStream::try_from's assert_eq!(as_bytecode(), input) is unreachable as a corollary of `re-encoding == input` (flat_map over encode), not separately encoded"]
    f = eng.fns["disassemble"]
    head = None
    for bb, blk in f.blocks.items():
        if blk.term and "as Iterator>::next(" in blk.term and "Enumerate" in blk.term:
            head = bb
    need = ["opcodes", "ops", "last_push", "last_push_start", "push_size", "remaining_push_bytes", "push_bytes", "iter", "bytes"]
    if head is None or any(n not in f.debug for n in need):
        out.inconc("disassemble: loop head or locals not found (%s)" % [n for n in need if n not in f.debug])
        return
    D = f.debug
    enc = Enc(eng)
    extra = [(r"^(mem::|memory::)?PushN::new::<.*>$|^(mem::|memory::)?PushN::new$", pushn_summary)]

    def bytes_obj():
        return Obj("bytes", "[u8]", name="bytes", arr=B, len=L)

    # ---------------- prologue ---------------------------------------------------------------------------
    ex = eng.explorer(extra=extra, max_visits=40)

    def body_init(ctx):
        ctx.stop_at = {head: 1}
        return ctx.run_fn(f, [Ref(Cell(bytes_obj(), "bytes"), ())]), ctx
    paths = ex.explore(body_init)

    def state_of(frame, ctx):
        loc = frame["locals"]
        opsv = loc[D["opcodes"]].v
        it = loc[D["iter"]].v
        pb = loc[D["push_bytes"]].v
        g = lambda n: ctx.force(loc[D[n]].v).e
        return dict(ops=opsv, off=it.it.pos, count=it.count, size=g("push_size"), rem=g("remaining_push_bytes"), last=g("last_push"),
                    start=g("last_push_start"), pbl=pb.len, pb=pb.arr)

    def post_init(p):
        if p.kind == "return":
            r, ctx = p.ret
            # only the empty input may be rejected here
            return z3.And(z3.BoolVal(variant(r) == "Err"), L == 0)
        st = state_of(p.data, p.ctx)
        if st["ops"].pushed:
            return z3.BoolVal(False)
        return z3.And(invariant(st["ops"].base_len, st["off"], st["size"], st["rem"], st["last"], st["start"], st["pbl"], st["pb"]),
                      st["count"] == st["off"], st["ops"].base_len == 0)
    def replay_init(p, model):
        return native.scenario(out, "disassemble_roundtrip", {"zeros": min(ev(model, L), 1 << 20)}, judge=_PANIC)
    verdict(out, pr, "D1.prologue_establishes_invariant", paths, post_init, pre=[z3.ULT(L, z3.BitVecVal(1 << 32, 64))], kinds=("return", "cut"),
            replay=replay_init, key="disassemble-rejects-or-garbles-input",
            what="the empty input is the only one rejected up front; otherwise the loop is entered in a state satisfying I")

    # ---------------- one byte step / epilogue from an arbitrary invariant state --------------------------------
    ex = eng.explorer(extra=extra, max_visits=40)

    def body_step(ctx):
        frame = {"locals": {l: Cell(None, "dis:" + l) for l in f.locals}, "fn": f, "visits": {}}
        loc = frame["locals"]
        bo = bytes_obj()
        loc[D["bytes"]].v = Ref(Cell(bo, "bytes"), ())
        loc[D["opcodes"]].v = Obj("vec", "Vec<Rc<dyn Opcode>>", name="ops", base_len=P, pushed=[], elem_ty="Rc<dyn Opcode>")
        loc[D["ops"]].v = Ref(loc[D["opcodes"]], (), True)
        loc[D["last_push"]].v = Int(LAST, 8)
        loc[D["last_push_start"]].v = Int(START, 32)
        loc[D["push_size"]].v = Int(SIZE, 8)
        loc[D["remaining_push_bytes"]].v = Int(REM, 8)
        loc[D["push_bytes"]].v = Obj("bytes", "Vec<u8>", name="push_bytes", arr=PB, len=PBL)
        loc[D["iter"]].v = Obj("enumerate", "Enumerate", it=Obj("sliceiter", "Iter", src=bo, pos=OFF), count=OFF)
        # drop flags and scratch locals
        for l, t in f.locals.items():
            if loc[l].v is None and t.strip() == "bool":
                loc[l].v = Bool(False)
        ctx.stop_at = {head: 2}
        ctx.frame0 = frame
        ctx.assume(invariant(P, OFF, SIZE, REM, LAST, START, PBL, PB))
        r = ctx.run_fn(f, [], start=head, frame=frame)
        return r, ctx
    t0 = time.time()
    try:
        paths = ex.explore(body_step)
    except Unsupported as e:
        out.obligation("D2.step_and_epilogue", "mirsmt", "inconclusive", 0, witness=False, note=str(e))
        out.inconc("D2: %s" % e)
        paths = None
    if paths is None:
        for k in ((0, 1, 2) if tier == "quick" else (0, 1, 2, 3, 5)):
            truncated_push(out, eng, pr, f, enc, extra, k)
        return
    out.extra["step_paths"] = len(paths)
    out.extra["step_explore_s"] = round(time.time() - t0, 1)
    pre = [invariant(P, OFF, SIZE, REM, LAST, START, PBL, PB)]
    kinds_seen = {}
    tags_seen = set()

    def post_step(p):
        ctx = p.ctx
        frame = ctx.frame0
        st = state_of(frame, ctx)
        try:
            entries = enc.entries(ctx, st["ops"].pushed)
        except Unsupported as e:
            out.notes.append("D2: " + str(e))
            return z3.BoolVal(False)
        for e in entries:
            if e[0] == "byte":
                tags_seen.add(e[2])
        okenc, n_entries = encodes(entries, P)
        p1 = P + z3.BitVecVal(n_entries, 64)
        kinds_seen[p.kind] = kinds_seen.get(p.kind, 0) + 1
        if p.kind == "cut":
            return z3.And(okenc, z3.BoolVal(n_entries == len(entries)),
                          invariant(p1, st["off"], st["size"], st["rem"], st["last"], st["start"], st["pbl"], st["pb"]),
                          st["count"] == st["off"], st["off"] == OFF + 1)
        if p.kind == "return":
            r = p.ret[0]
            # end of input: Ok, one entry per byte, re-encoding equals the input
            return z3.And(z3.BoolVal(variant(r) == "Ok"), OFF == L, okenc, z3.BoolVal(n_entries == len(entries)), p1 == L)
        return z3.BoolVal(False)        # panic / unreachable / loop bound

    def replay(p, model):
        # build the shortest concrete input the model describes: the bytes from the open push (or current offset) to the end
        ln = ev(model, L)
        p0 = ev(model, P)
        tail = [ev(model, z3.Select(B, z3.BitVecVal(i, 64))) for i in range(p0, min(ln, p0 + 40))]
        confirmed, rep = native.scenario(out, "disassemble_roundtrip", {"hex": bytes(tail).hex() or "00"}, judge=_PANIC)
        if not confirmed:
            # the model describes a state in the middle of an input; compare whole inputs with a reference disassembler:
            # the model's tail and every "prefix, PUSHn, k of its n immediates" program
            confirmed, rep = native.scenario(out, "disassemble_reference", {"hex": bytes(tail).hex() or "00"}, judge=_PANIC)
        return confirmed, rep
    verdict(out, pr, "D2.step_and_epilogue", paths, post_step, pre=pre, kinds=("cut", "return", "panic", "unreachable", "loop-bound"),
            replay=replay, key="disassemble-rejects-or-garbles-input",
            what="from any state satisfying I, consuming one byte re-establishes I with the appended entries re-encoding the consumed bytes "
                 "(immediates as Nop); at end of input the result is Ok with one entry per byte whose re-encoding is the input, "
                 "including every truncated PUSH")
    out.extra["step_path_kinds"] = kinds_seen
    out.extra["opcode_types_seen"] = len(tags_seen)

    # ---------------- J2 (C08): JUMPDEST only for byte 0x5b at an instruction boundary ------------------------------
    def post_j2(p):
        ctx = p.ctx
        st = state_of(ctx.frame0, ctx)
        entries = enc.entries(ctx, st["ops"].pushed)
        conds = []
        pos = 0
        for e in entries:
            if e[0] == "byte" and e[2] == "JumpDest":
                # it is the first appended entry and sits where no push was open
                conds.append(z3.And(z3.BoolVal(pos == 0), SIZE == 0, z3.Select(B, P) == 0x5b))
            pos += 1
        if p.kind == "cut":
            # a byte 0x5b consumed outside a push becomes JUMPDEST; inside a push it never does
            was_jd = z3.And(SIZE == 0, z3.Select(B, OFF) == 0x5b)
            has_jd = any(e[0] == "byte" and e[2] == "JumpDest" for e in entries)
            conds.append(z3.Implies(was_jd, z3.BoolVal(has_jd)))
        return z3.And(conds) if conds else z3.BoolVal(True)
    verdict(out, pr, "J2.jumpdest_only_at_instruction_boundary", paths, post_j2, pre=pre, kinds=("cut", "return"),
            what="an entry is JUMPDEST exactly when its byte is 0x5b and it is not a push immediate (immediates are Nop entries)")

    # ---------------- D3: the decoder table against the specification's opcode list ------------------------------------
    # For every byte value: the type of the entry the decoder appends for a byte consumed outside a push is the type the
    # Yellow Paper assigns to that byte (unassigned bytes and 0xfe: Invalid).  Round-trip alone cannot see two rows swapped
    # together with their `as_byte` values.
    from . import optable
    names = sorted(set(optable.SINGLE.values()) | {n for _, _, n in optable.RANGES} | {"Invalid"})
    ident = {n: i + 1 for i, n in enumerate(names)}

    def ref_id(b):
        e = z3.IntVal(ident["Invalid"])
        for byte, n in optable.SINGLE.items():
            e = z3.If(b == z3.BitVecVal(byte, 8), z3.IntVal(ident[n]), e)
        for lo, hi, n in optable.RANGES:
            e = z3.If(z3.And(z3.UGE(b, z3.BitVecVal(lo, 8)), z3.ULE(b, z3.BitVecVal(hi, 8))), z3.IntVal(ident[n]), e)
        return e
    d3_seen = set()

    def post_d3(p):
        ctx = p.ctx
        st = state_of(ctx.frame0, ctx)
        entries = enc.entries(ctx, st["ops"].pushed)
        if not entries:
            return z3.BoolVal(True)
        b = z3.Select(B, P)
        e = entries[0]
        if e[0] == "push":
            tname = "PushN"
        elif e[0] == "byte":
            tname = e[2]
        else:
            return z3.BoolVal(True)
        d3_seen.add(tname)
        if tname not in ident:
            return z3.Implies(SIZE == 0, z3.BoolVal(False))        # a type the specification does not know
        is_push = z3.And(z3.UGE(b, 0x60), z3.ULE(b, 0x7f))
        ok_ = ref_id(b) == ident[tname]
        if tname == "Invalid":
            # a PUSH cut short by the end of the code is decoded as Invalid entries (epilogue)
            ok_ = z3.Or(ok_, is_push)
        return z3.Implies(SIZE == 0, ok_)
    verdict(out, pr, "D3.decoder_table_matches_specification", paths, post_d3, pre=pre, kinds=("cut", "return"),
            replay=lambda p, model: native.scenario(out, "decoder_table", {}), key="decoder-table-differs-from-specification",
            what="for every byte, the entry appended for a byte consumed outside a push has the opcode type the specification assigns to that byte")
    out.extra["decoder_types_seen"] = sorted(d3_seen)

    # ---------------- T: whole runs on a PUSH cut short by the end of the code (bounded, complements D2) ------------
    # input = [PUSHn, b1..bk] with n > k >= 0 symbolic immediates: every entry must be Invalid with its own byte
    for k in ((0, 1, 2) if tier == "quick" else (0, 1, 2, 3, 5)):
        truncated_push(out, eng, pr, f, enc, extra, k)

    # ---------------- PushN contract (Engine A) -------------------------------------------------------------------
    names = catalog.PUSHN_QUICK if tier == "quick" else catalog.PUSHN_ALL
    kani.run_family(out, names + ["pushn_twin"], expect_fail=["pushn_twin"], tier=tier)
    out.extra["solver_queries"] = pr.n_queries + ex.stats["queries"]
