"""C09 — constant folding is meaning-preserving.

F1 (Engine A): every KnownWord fold operation vs. the limb-wise Yellow-Paper model,
               operands fully symbolic (2 x 256 bits).
F2 (Engine B): structure of `constant_folder` per arm (added by mirsmt).
"""
from .. import kani, mirrun
from . import folder

F1 = ["known_add", "known_sub", "known_and", "known_or", "known_xor", "known_not",
      "known_lt", "known_gt", "known_slt", "known_sgt", "known_eq", "known_is_zero",
      "known_shl", "known_shr", "known_sar",
      "known_mul", "known_div", "known_rem", "known_sdiv", "known_smod",
      "known_exp_small_exponent"]
F1_THOROUGH = ["known_exp_base0", "known_exp_base1", "known_exp_base2"]
TWINS = ["known_twin"]


def run(out, tier):
    out.functions += ["vm::value::known::KnownWord::{add,sub,mul,div,rem,signed_div,signed_rem,exp,lt,gt,"
                      "signed_lt,signed_gt,eq,is_zero,bitand,bitor,bitxor,not,shl,shr,sar}"]
    out.bounds += ["operands: all 2^256 x 2^256 values (two symbolic 256-bit words per harness)",
                   "unwind 34 with unwinding assertions (32-byte memcmp, 32-step wrapping_pow)",
                   "mul/div/mod/sdiv/smod: ethnum's multiplier/divider cores are uninterpreted functions "
                   "shared with the reference model (holds for every interpretation of the core)"]
    out.trusted += ["Kani 0.68 / CBMC 6.11 (cadical)", "rustc MIR -> goto translation",
                    "ethnum intrinsics mul2/mul3/umulc/udivmod4 (cores, uninterpreted)",
                    "reference model /verif/kani/src/model.rs (u128 limb arithmetic)"]
    out.assumptions += ["dev profile semantics (debug assertions on) under Kani; release behaviour of each "
                        "counterexample is obtained by native replay"]
    eng = mirrun.load_engine(out)
    folder.run_f2(out, eng)
    folder.run_transform(out, eng)
    names = F1 + (F1_THOROUGH if tier == "thorough" else [])
    if tier == "thorough":
        out.bounds.append("thorough: EXP with base 0, 1, 2 and a fully symbolic 256-bit exponent through the real multiplier (unwind 258)")
    kani.run_family(out, names + TWINS, expect_fail=TWINS, tier=tier, timeout_s=150 if tier == "quick" else 1500)
