"""C13 — watchdog: POLLING-DISCIPLINE KERNEL ONLY (Engine B).

The statement is about whole runs interrupted at poll k.  What is decided is the local discipline of every polled loop
of the crate (the poll sites are found in the MIR on every run): from an ARBITRARY loop state, one iteration
  P1  consults the watchdog exactly when `counter % interval == 0`;
  P2  if the watchdog says stop, returns an error carrying StoppedByWatchdog without doing the iteration's work;
  P3  otherwise increments the counter by exactly one before the next iteration.
Everything the loop body calls is havoc'd (arbitrary results), so the verdicts hold for every behaviour of the work."""
import re
import time

import z3

from .. import common as C
from .. import mirrun
from mirsmt.interp import Agg, Bool, Cell, Int, Lazy, Obj, Ref, Unsupported, UNIT
from mirsmt import mir as M


def successors(blk):
    t = blk.term or ""
    return re.findall(r"(?:return|success|real|otherwise|\d+): (bb\d+)", t) + re.findall(r"^goto -> (bb\d+)", t) + \
        re.findall(r"-> \[return: (bb\d+)", t)


def loop_head(f, poll_bb):
    """innermost natural loop header whose loop contains poll_bb"""
    succ = {bb: [s for s in dict.fromkeys(successors(b)) if s in f.blocks and not f.blocks[s].cleanup] for bb, b in f.blocks.items() if not b.cleanup}
    # DFS for back edges
    color, back = {}, []

    def dfs(u):
        color[u] = 1
        for v in succ.get(u, []):
            if color.get(v) == 1:
                back.append((u, v))
            elif v not in color:
                dfs(v)
        color[u] = 2
    import sys
    sys.setrecursionlimit(10000)
    dfs("bb0")
    pred = {}
    for u, vs in succ.items():
        for v in vs:
            pred.setdefault(v, []).append(u)
    best = None
    for (u, h) in back:
        body = {h, u}
        stack = [u]
        while stack:
            x = stack.pop()
            if x == h:
                continue
            for p in pred.get(x, []):
                if p not in body:
                    body.add(p)
                    stack.append(p)
        if poll_bb in body and (best is None or len(body) < best[1]):
            best = (h, len(body))
    return best[0] if best else None


def poll_sites(eng):
    sites = []
    for n, f in eng.fns.items():
        if "test" in n:
            continue
        for bb, b in f.blocks.items():
            if b.term and "should_stop" in b.term and not b.cleanup:
                sites.append((n, f, bb))
    return sites


def run(out, tier):
    eng = mirrun.load_engine(out)
    out.bounds += ["one iteration of every polled loop from an arbitrary loop state (all counter / interval values, interval >= 1); "
                   "the loop body's callees return arbitrary values"]
    out.assumptions += ["ONLY the polling discipline of each loop is decided; `the result equals the unmonitored result`, `no layout from "
                        "partial work` and the bound on further polls across stages are consequences argued from it, not queries",
                        "poll_every() >= 1 (0 is an invalid configuration)",
                        "side effects of havoc'd callees on the loop counter are impossible (it is a local by value)"]
    sites = poll_sites(eng)
    out.extra["poll_sites"] = [re.sub(r"<impl at (src/[^:]+):(\d+)[^>]*>", r"<\1:\2>", n) for n, _, _ in sites]
    if len(sites) < 11:
        out.inconc("only %d poll sites found in the MIR (11 expected): a polled loop lost its poll" % len(sites))
    for n, f, poll_bb in sites:
        short = re.sub(r"<impl at (src/[^:]+):(\d+)[^>]*>", r"<\1:\2>", n)
        oid = "P.%s" % short[-60:]
        try:
            one_site(out, eng, f, poll_bb, oid)
        except Unsupported as e:
            out.obligation(oid, "mirsmt", "inconclusive", 0, witness=False, note=str(e))
            out.inconc("%s: %s" % (oid, e))



# ---- type-directed model of the loop's iterator (so that `enumerate()` counters are decided, not assumed) ------
def split_generic(ty):
    """'Enumerate<StepBy<Range<usize>>>' -> ('Enumerate', 'StepBy<Range<usize>>')"""
    ty = ty.strip()
    m = re.match(r"^(?:[\w]+::)*(\w+)<(.*)>$", ty)
    if not m:
        return ty, None
    return m.group(1), m.group(2)


def tuple_second(ty):
    """'(usize, T)' -> 'T'"""
    ty = ty.strip()
    if not (ty.startswith("(") and ty.endswith(")")):
        return "?"
    depth, inner = 0, ty[1:-1]
    for i, ch in enumerate(inner):
        depth += ch in "<([" 
        depth -= ch in ">)]"
        if ch == "," and depth == 0:
            return inner[i + 1:].strip()
    return "?"


def it_state(ty, step_const, n=[0]):
    head, arg = split_generic(ty)
    n[0] += 1
    if head == "Enumerate" and arg:
        return {"k": "enumerate", "count": z3.BitVec("enum_count_%d" % n[0], 64), "inner": it_state(arg, step_const)}
    if head == "StepBy" and arg:
        step = z3.BitVecVal(step_const - 1, 64) if step_const else z3.BitVec("step_minus_one_%d" % n[0], 64)
        return {"k": "stepby", "step_m1": step, "first": None, "inner": it_state(arg, step_const)}
    return {"k": "leaf", "ty": ty}


def it_copy(st):
    c = dict(st)
    if "inner" in c:
        c["inner"] = it_copy(c["inner"])
    return c


def it_advance(ctx, st, k, item_ty, peek):
    """advance by k items (Iterator::nth(k-1)); returns the item or None; `peek`: no forking, the leaf always yields"""
    if st["k"] == "enumerate":
        x = it_advance(ctx, st["inner"], k, tuple_second(item_ty), peek)
        if x is None:
            return None
        i = st["count"] + k - 1
        st["count"] = i + 1
        return Agg("(tuple)", {0: Int(i, 64), 1: x})
    if st["k"] == "stepby":
        if not (z3.is_bv_value(z3.simplify(k)) and z3.simplify(k).as_long() == 1):
            raise Unsupported("nth on StepBy")
        if st["first"] is None:
            st["first"] = (ctx.choose(2) == 0) if not peek else False
        k2 = z3.BitVecVal(1, 64) if st["first"] else st["step_m1"] + 1
        st["first"] = False
        return it_advance(ctx, st["inner"], k2, item_ty, peek)
    if peek:
        return Lazy(item_ty, "peeked-item")
    if ctx.choose(2) == 0:
        return None
    return ctx.fresh(item_ty, "item")


def one_site(out, eng, f, poll_bb, oid):
    head = loop_head(f, poll_bb)
    if head is None:
        raise Unsupported("poll site is not inside a loop")
    # counter and interval: operands of the remainder feeding the poll decision
    rems = []
    for b in f.blocks.values():
        for st in b.stmts:
            m = re.search(r"= Rem\((?:copy|move) (_\d+), (?:copy|move) (_\d+)\)", st)
            if m:
                rems.append((m.group(1), m.group(2)))
    rems = list(dict.fromkeys(rems))
    if len(rems) != 1:
        raise Unsupported("cannot identify counter / interval (%d remainder operations)" % len(rems))
    cnt_l, int_l = rems[0]
    # the remainder may be computed on temporaries: trace them back to the source variables
    def origin(l):
        for _ in range(4):
            srcs = set()
            for b in f.blocks.values():
                for st in b.stmts:
                    m = re.match(r"^%s = (?:copy|move) (_\d+);?$" % re.escape(l), st.strip())
                    if m:
                        srcs.add(m.group(1))
            if len(srcs) != 1:
                return l
            l = srcs.pop()
        return l
    cnt_l, int_l = origin(cnt_l), origin(int_l)
    named = {v: k for k, v in f.debug.items()}
    out.notes.append("%s: counter = %s (%s), interval = %s (%s), loop head %s" % (oid, cnt_l, named.get(cnt_l, "?"), int_l, named.get(int_l, "?"), head))
    CNT, INT = z3.BitVec("counter", 64), z3.BitVec("interval", 64)
    explicit_counter = any(re.search(r"AddWithOverflow\((?:copy|move) %s, const 1_usize\)" % re.escape(cnt_l), st)
                           for b in f.blocks.values() for st in b.stmts)
    out.notes.append("%s: %s" % (oid, "own counter (+= 1)" if explicit_counter else "counter from Iterator::enumerate (std contract)"))
    STOP = z3.Bool("watchdog_says_stop")

    def should_stop(ctx, a, ty, c):
        ctx.events.append(("poll", list(ctx.pc), len(ctx.events)))
        return Bool(STOP)

    def poll_every(ctx, a, ty, c):
        return Int(INT, 64)
    def havoc(ctx, a, ty, c):
        ctx.events.append(("havoc", c))
        return ctx.fresh(ty, "havoc:" + c[-30:])
    step_const = None
    for b in f.blocks.values():
        m = re.search(r"as Iterator>::step_by\((?:copy|move) _\d+, const (\d+)_usize\)", b.term or "")
        if m:
            step_const = int(m.group(1))

    def it_next(ctx, a, ty, c):
        m = re.match(r"^<(.*) as Iterator>::next$", c)
        head, arg = split_generic(m.group(1)) if m else (None, None)
        if head not in ("Enumerate", "StepBy") or not isinstance(a[0], Ref):
            return NotImplemented
        if not hasattr(ctx, "iters"):
            ctx.iters = {}
        key = (id(a[0].cell), a[0].path)
        if key not in ctx.iters:
            ctx.iters[key] = it_state(m.group(1), step_const, [0])
            ctx.assume(z3.ULT(ctx.iters[key].get("count", z3.BitVecVal(0, 64)), z3.BitVecVal((1 << 63), 64)))
        st = ctx.iters[key]
        om = re.match(r"^(?:[\w:]+::)?Option<(.*)>$", ty.strip())
        item_ty = om.group(1) if om else "?"
        x = it_advance(ctx, st, z3.BitVecVal(1, 64), item_ty, False)
        ctx.events.append(("next", key))
        from mirsmt.summaries import some, none
        return none(ty) if x is None else some(ty, x)
    extra = [(r"^<.* as Iterator>::next$", it_next), (r"^<dyn Watchdog as Watchdog>::should_stop$", should_stop), (r"^<dyn Watchdog as Watchdog>::poll_every$", poll_every),
             # the bookkeeping of the VM main loop is decided under C03 / C17; here it is part of "the work"
             (r"^VM::advance$|^VMThread::consume_gas$|^VM::kill_current_thread$|^Errors::<.*>::add$|^VisitedOpcodes::mark_visited$", havoc)]
    ex = eng.explorer(extra=extra, havoc_unknown=True, max_visits=3, max_seconds=90)

    def body(ctx):
        frame = {"locals": {}, "fn": f, "visits": {}}
        for l, t in f.locals.items():
            t = t.strip()
            if t == "bool":
                frame["locals"][l] = Cell(Bool(False), l)       # drop flags
            else:
                frame["locals"][l] = Cell(Lazy(t, "L%s" % l), l)
        frame["locals"][cnt_l].v = Int(CNT, 64)
        frame["locals"][int_l].v = Int(INT, 64)
        ctx.assume(z3.UGE(INT, 1))

        def hook(ctx_, frame_, st):
            m = re.search(r"= Rem\((?:copy|move) (_\d+), (?:copy|move) (_\d+)\)", st)
            if m and frame_ is ctx_.frame0:
                a_ = ctx_.force(frame_["locals"][m.group(1)].v)
                b_ = ctx_.force(frame_["locals"][m.group(2)].v)
                ctx_.events.append(("rem", a_.e, b_.e))
        ctx.stmt_hook = hook
        # only error construction / conversion is followed into the crate; the iteration's work is havoc'd
        ctx.inline_filter = lambda name: bool(re.search(r"::locate|::from$|::from_residual|::into$|instruction_pointer$|\{closure#\d+\}$|::new$|::default$|::add(_many)?(_located)?$", name))
        ctx.stop_at = {head: 2}
        ctx.frame0 = frame
        r = ctx.run_fn(f, [], start=head, frame=frame)
        return r, ctx
    t0 = time.time()
    paths = ex.explore(body)
    bad = None
    n_iter = n_stop = 0
    enum_modelled = enum_unmodelled = 0
    for p in paths:
        ctx = p.ctx
        polls = [e for e in ctx.events if e[0] == "poll"]
        rems_ = [e for e in ctx.events if e[0] == "rem"]
        due = (z3.URem(rems_[0][1], rems_[0][2]) == 0) if rems_ else z3.BoolVal(False)
        if p.kind == "panic":
            continue             # counter overflow at usize::MAX, index panics of havoc'd data: C01 business
        if p.kind not in ("cut", "return"):
            continue
        s = z3.Solver()
        # P1: a poll happens only when due
        for (_, pc, _) in polls:
            s.push()
            for c_ in pc:
                s.add(c_)
            s.add(z3.Not(due))
            if s.check() == z3.sat:
                bad = "the watchdog is consulted although counter % interval != 0"
            s.pop()
        if p.kind == "cut":
            n_iter += 1
            # a completed iteration without a poll must not have been due
            if not polls:
                s.push()
                for c_ in p.pc:
                    s.add(c_)
                s.add(due)
                if s.check() == z3.sat:
                    bad = "an iteration runs without consulting the watchdog although counter % interval == 0"
                s.pop()
            # P3 (loops that keep their own counter; `enumerate()` loops get it from the iterator's contract)
            if explicit_counter and rems_:
                c1 = ctx.force(ctx.frame0["locals"][cnt_l].v)
                s.push()
                for c_ in p.pc:
                    s.add(c_)
                s.add(c1.e != rems_[0][1] + 1)
                if s.check() == z3.sat:
                    bad = "the counter is not advanced by exactly one per iteration"
                s.pop()
            if not explicit_counter and rems_:
                nexts = [e for e in ctx.events if e[0] == "next"]
                sts = getattr(ctx, "iters", {})
                if len(nexts) == 1 and nexts[0][1] in sts:
                    enum_modelled += 1
                    nxt = it_advance(ctx, it_copy(sts[nexts[0][1]]), z3.BitVecVal(1, 64), "(usize, ?)", True)
                    idx = nxt.fields.get(0) if isinstance(nxt, Agg) else None
                    if not isinstance(idx, Int):
                        bad = "the loop's iterator yields no enumeration index for the next iteration"
                    else:
                        s.push()
                        for c_ in p.pc:
                            s.add(c_)
                        s.add(idx.e != rems_[0][1] + 1)
                        if s.check() == z3.sat:
                            bad = "the counter the next iteration will see is not this iteration's counter plus one (the enumeration index does not count iterations)"
                        s.pop()
                else:
                    enum_unmodelled += 1
                    # the value tested against the interval is neither a local this loop increments by one nor the index of
                    # an enumerate() over the loop's own iterator: nothing makes it count iterations
                    bad = bad or ("the value tested against the polling interval is neither a counter the loop increments by one "
                                  "nor the enumeration index of the loop's iterator, so it does not count iterations")
            if not rems_:
                bad = "an iteration completes without evaluating the poll condition"
            # a polled iteration continued: the watchdog must have said "go on"
            if polls:
                s.push()
                for c_ in p.pc:
                    s.add(c_)
                s.add(STOP)
                if s.check() == z3.sat:
                    bad = "the loop continues although the watchdog said stop"
                s.pop()
        if polls and p.kind == "return":
            s.push()
            for c_ in p.pc:
                s.add(c_)
            s.add(STOP)
            stopped = s.check() == z3.sat
            s.pop()
            if stopped and any(str(c_) == "watchdog_says_stop" for c_ in p.pc):
                n_stop += 1
                r = p.ret[0]
                if not (isinstance(r, Agg) and r.variant == "Err" and contains_variant(r, "StoppedByWatchdog")):
                    bad = "after the watchdog said stop the function does not return a StoppedByWatchdog error"
                after = [e for e in ctx.events[polls[0][2] + 1:] if e[0] == "havoc" and not re.search(r"locate|from|instruction_pointer|value_unchecked|drop|clone|into", e[1])]
                if after:
                    bad = "work is done after the watchdog said stop: %s" % after[0][1][:60]
    dt = time.time() - t0
    if bad:
        from .. import native
        if oid.endswith("unify") and "tc::" not in oid:
            confirmed, rep = native.scenario(out, "unify_polls", {"n": 50, "interval": 10})
        else:
            confirmed, rep = native.scenario(out, "watchdog_sweep", {"interval": 2})
            if not confirmed and "opcode::" in oid:
                confirmed, rep = native.scenario(out, "copy_loop_polls", {"iters": 16, "interval": 4})
            if not confirmed and "tc::" in oid:
                for k in (2, 3, 5):
                    confirmed, rep = native.scenario(out, "tc_phase_polls", {"interval": k})
                    if confirmed:
                        break
        if confirmed:
            out.obligation(oid, "mirsmt", "violated", dt, witness=True, note=bad, replay=rep)
            out.violation(C.Violation(key="poll-discipline:%s" % oid, what="%s: %s" % (oid, bad), replay={"engine": "mirsmt", "obligation": oid, "native": rep}))
        else:
            out.obligation(oid, "mirsmt", "cex-not-reproduced", dt, witness=False, note=bad, replay=rep)
            out.inconc("%s: %s (the native watchdog sweep did not expose it: %s)" % (oid, bad, str(rep)[:200]))
    elif n_iter == 0 or n_stop == 0:
        out.obligation(oid, "mirsmt", "vacuous", dt, witness=False, note="iterations=%d stop paths=%d" % (n_iter, n_stop))
        out.inconc("%s: no completed iteration or no stop path explored (iterations=%d, stops=%d)" % (oid, n_iter, n_stop))
    else:
        if not explicit_counter and enum_modelled == 0:
            out.notes.append("%s: the enumerate() counter comes from an iterator type outside the model; P3 rests on the std contract" % oid)
        out.obligation(oid, "mirsmt", "holds", dt, witness=True, paths=len(paths), iterations=n_iter, stop_paths=n_stop, head=head,
                       counter="own (+= 1)" if explicit_counter else "enumerate(): %d iterations with the iterator modelled from its type, %d not" % (enum_modelled, enum_unmodelled))


def contains_variant(v, name, depth=0):
    if depth > 8:
        return False
    if isinstance(v, Agg):
        if v.variant == name:
            return True
        return any(contains_variant(x, name, depth + 1) for x in v.fields.values())
    if isinstance(v, Obj) and getattr(v, "kind", "") == "vec":
        return any(contains_variant(x, name, depth + 1) for x in v.pushed)
    return False
