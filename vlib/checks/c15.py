"""C15 — compatible evidence joins to its most specific type; contradictions conflict.
Pairwise level, on `tc::unification::merge` itself (Engine A)."""
from .. import catalog, kani


def run(out, tier):
    out.functions += ["tc::unification::merge", "tc::expression::WordUse::merge", "tc::expression::TypeExpression::conflict_with (stubbed)"]
    out.bounds += ["evidence domain D of the property: Any, Bytes, words (8 usages x widths {None,8,32,160,192,256}, "
                   "fixed-width usages at their width), Mapping/DynamicArray/FixedArray over two type variables "
                   "(lengths 2,3), Conflict; kinds concrete per harness, payloads symbolic",
                   "pairwise obligations only (evidence spread over union-find rounds is outside)",
                   "unwind 8 with unwinding assertions"]
    out.trusted += ["Kani 0.68 / CBMC 6.11", "stub: TypeExpression::conflict_with -> payload-free Conflict",
                    "stub: uuid::Uuid::new_v4 -> counter", "reference order on usages in /verif/kani/src/h_merge.rs"]
    out.assumptions += ["`&mut TypeCheckerState` is never-dereferenced storage: the Packed arms of merge (which allocate "
                        "type variables) are outside the claim",
                    "must-join / must-conflict obligations are limited to the classes the statement names"]
    kani.run_family(out, catalog.JOIN + ["merge_twin"], expect_fail=["merge_twin"], tier=tier)
