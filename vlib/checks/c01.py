"""C01 — analysis is total (never panics): bounded to enumerated kernels.

A  (Kani)   panic-freedom of every KnownWord fold operation and conversion for ALL 2^512 operand pairs, of the
            vector map, StorageLayout::add, PushN — Kani's automatic checks (overflow, shift, index, unwrap, panic!).
B  (mirsmt) reachability of the arithmetic `assert`s rustc emits (overflow checks are on in the release profile too)
            in the functions where an attacker-chosen 256-bit constant meets usize arithmetic; every SAT site is
            replayed through the public `analyze()` entry point under catch_unwind before it is reported.
The census of ALL such assert sites of the crate is regenerated on every run and listed in the evidence with the
status of each (decided / not encoded).
"""
import re
import time

import z3

from .. import catalog, common as C
from .. import kani, mirrun, native
from mirsmt.interp import Agg, Bool, Cell, Int, Lazy, Obj, PathEnd, Ref, Unsupported, UNIT
from mirsmt.oblig import ev
from mirsmt.summaries import load, none, some

KANI_PANIC_FREE = ["known_add", "known_sub", "known_and", "known_or", "known_xor", "known_not", "known_lt", "known_gt",
                   "known_slt", "known_sgt", "known_eq", "known_is_zero", "known_shl", "known_shr", "known_sar",
                   "known_mul", "known_div", "known_rem", "known_sdiv", "known_smod", "known_exp_small_exponent",
                   "known_conversions", "vmap_one_op", "vmap_grow", "layout_add_2", "layout_index_conversions",
                   "pushn_accepts_0", "pushn_accepts_1", "pushn_accepts_33", "pushn_contract_32", "opcode_ctors"]


def census(eng):
    sites = []
    for n, f in eng.fns.items():
        if "::test" in n or "test::" in n:
            continue
        for bb, b in f.blocks.items():
            if b.cleanup or not b.term or not b.term.startswith("assert("):
                continue
            m = re.search(r'"([^"]*)"', b.term)
            short = re.sub(r"<impl at (src/[^:]+):[^>]*>", r"<\1>", n)
            sites.append({"function": short, "block": bb, "assert": m.group(1) if m else b.term[:60]})
    return sites


def push(v, width=None):
    """PUSHn encoding of integer v"""
    if v == 0:
        return "5f"
    n = max(1, (v.bit_length() + 7) // 8)
    if width:
        n = max(n, width)
    return "%02x" % (0x5f + n) + v.to_bytes(n, "big").hex()


def site_load_slice(out, eng):
    """Memory::load_slice: `offset..offset + bounded_size` with offset the low 64 bits of any constant."""
    f = eng.fn(">::load_slice", file="src/vm/state/memory.rs")
    OFFW = z3.BitVec("offset_word", 256)
    SIZE = z3.BitVec("size", 64)

    def constant_fold(ctx, a, ty, c):
        b = Agg("Arc<SymbolicValue<()>>", {})
        sv = Agg("vm::value::SymbolicValue<()>", {}, None, "folded")
        b.attrs["inner"] = Cell(sv, "folded")
        # decide: constant or not
        if ctx.choose(2) == 0:
            sv.fields[2] = Agg("vm::value::SymbolicValueData<()>", {0: Agg("KnownWord", {0: Int(OFFW, 256)})}, "KnownData")
        else:
            sv.fields[2] = Obj("svd-opaque", "SymbolicValueData")
        return b

    def data(ctx, a, ty, c):
        v = load(ctx, a[0])
        if isinstance(v, Agg) and 2 in v.fields:
            d = v.fields[2]
            if isinstance(d, Obj):
                raise PathEnd("cut", "non-constant offset")
            return Ref(Cell(d, "data"), ())
        return NotImplemented

    def decompose(ctx, a, ty, c):
        if ctx.choose(2) == 0:
            return some(ty, Int(SIZE, 64))
        return none(ty)

    def as_usize(ctx, a, ty, c):
        return Int(z3.Extract(63, 0, ctx.force(a[0]).e), 64)

    def umin(ctx, a, ty, c):
        x, y = ctx.force(a[0]), ctx.force(a[1])
        return Int(z3.If(z3.ULE(x.e, y.e), x.e, y.e), 64)
    def get_or_init(ctx, a, ty, c):
        return Ref(Cell(Lazy("Arc<SymbolicValue<()>>", ctx.fresh("?", "cell").name), "memcell"), ())
    extra = [(r"^SymbolicValue::<\(\)>::constant_fold$", constant_fold), (r"^SymbolicValue::<\(\)>::data$", data),
             (r"^Memory::get_or_initialize", get_or_init), (r"^Memory::decompose_size$", decompose), (r"^U256::as_usize$", as_usize), (r"^<usize as Ord>::min$|^std::cmp::Ord::min$|^Ord::min$", umin)]
    ex = eng.explorer(extra=extra, havoc_unknown=True, max_visits=3)

    def body(ctx):
        mem = Cell(Lazy("vm::state::memory::Memory", "mem"), "mem")
        r = ctx.run_fn(f, [Ref(mem, (), True), Ref(Cell(Lazy("Arc<SymbolicValue<()>>", "off"), "off"), ()),
                           Ref(Cell(Lazy("Arc<SymbolicValue<()>>", "sz"), "sz"), ()), Int(z3.BitVec("ip", 32), 32)])
        return r, ctx
    return decide_site(out, "B.load_slice.offset_plus_size", ex, body, f.name,
                       # the template runs under the default configuration: prefer models whose size is below the
                       # configured limit (so that min(size, limit) = size) and fits a PUSH2
                       prefer=[z3.ULE(SIZE, 0x2000), z3.UGE(z3.BitVec("mem.2", 64), SIZE)],
                       template=lambda m: {"hex": push(max(1, ev(m, SIZE) & 0xffff)) + push(ev(m, OFFW) & (2**64 - 1), 8) + "20"},
                       key="memory-load-slice-offset-plus-size-overflows",
                       what="Memory::load_slice computes `offset + min(size, limit)` on usize with offset = low 64 bits of an arbitrary constant")


def site_sub_word(out, eng):
    """insert_sub_words: `offset + shift` with shift the low 64 bits of any constant; also the produced SubWord must lie in the word."""
    f = eng.fns.get("insert_sub_words")
    if f is None:
        out.inconc("B.sub_word: insert_sub_words not found")
        return
    MO, ML, SH = z3.BitVec("mask_offset", 64), z3.BitVec("mask_length", 64), z3.BitVec("shift", 64)

    def get_region(ctx, a, ty, c):
        n = sum(1 for e in ctx.events if e[0] == "region")
        ctx.events.append(("region", n))
        if ctx.choose(2) == 0:
            ctx.events.append(("mask-found", n))
            # what get_region guarantees by construction of its two scans: a non-empty run of ones inside the word
            ctx.assume(z3.And(z3.UGE(ML, 1), z3.ULE(ML, 256), z3.ULT(MO, 256), z3.ULE(MO + ML, 256)))
            return some(ty, Agg("SubWord", {0: Int(MO, 64), 1: Int(ML, 64)}))
        return none(ty)

    def get_shift(ctx, a, ty, c):
        return Agg("(tuple)", {0: a[0], 1: Int(SH, 64)})

    def data(ctx, a, ty, c):
        return Ref(Cell(Obj("svd-opaque", "SymbolicValueData", variant_known=False), "data"), ())

    def transform_data(ctx, a, ty, c):
        return Obj("transformed", "Arc<SymbolicValue>")

    def data_of(ctx, a, ty, c):
        v = load(ctx, a[0])
        if isinstance(v, Obj) and v.kind == "transformed":
            return Ref(Cell(Lazy("vm::value::SymbolicValueData<()>", "tdata"), "tdata"), ())
        return NotImplemented
    extra = [(r"^SubWordValue::get_region$", get_region), (r"^SubWordValue::get_shift$", get_shift),
             (r"^SymbolicValue::<\(\)>::data$", data_of),
             (r"^SymbolicValue::<\(\)>::transform_data::<.*>$", transform_data)]
    ex = eng.explorer(extra=extra, havoc_unknown=True, max_visits=3)

    def body(ctx):
        d = Agg("vm::value::SymbolicValueData<()>", {}, "And", "data")
        r = ctx.run_fn(f, [Ref(Cell(d, "data"), ())])
        return r, ctx

    def template(m):
        mo, ml, sh = ev(m, MO), ev(m, ML), ev(m, SH)
        mask = ((1 << ml) - 1) << mo
        return {"hex": "5f54" + push(sh) + "1c" + push(mask & (2**256 - 1)) + "16" + "600155"}
    decide_site(out, "B.sub_word.offset_plus_shift", ex, body, f.name, template=template,
                key="sub-word-offset-plus-shift-overflows",
                what="SubWordValue lifting computes `mask offset + shift amount` on usize with the shift the low 64 bits of an arbitrary constant")
    return ex, body, (MO, ML, SH), template


def decide_site(out, oid, ex, body, fn_name, template, key, what, pre=None, prefer=None):
    t0 = time.time()
    try:
        paths = ex.explore(body)
    except Unsupported as e:
        out.obligation(oid, "mirsmt", "inconclusive", 0, witness=False, note=str(e))
        out.inconc("%s: %s" % (oid, e))
        return None
    short = fn_name.split("::")[-1]
    panics = [p for p in paths if p.kind == "panic" and "MIR assert" in p.msg and short in p.msg]
    others = [p for p in paths if p.kind == "panic" and p not in panics]
    reach = None
    # first look for a model the replay template can express exactly (`prefer`), then for any model
    for extra_c in ([prefer] if prefer else []) + [[]]:
        for p in panics:
            s = z3.Solver()
            for c in p.pc + (pre or []) + extra_c:
                s.add(c)
            if s.check() == z3.sat:
                reach = (p, s.model())
                break
        if reach:
            break
    if reach is None:
        out.obligation(oid, "mirsmt", "holds", time.time() - t0, witness=bool(paths), paths=len(paths), assert_paths=len(panics),
                       note="unreachable: no input of the function reaches its arithmetic assert (%s)" % what)
        return paths
    p, m = reach
    params = template(m)
    confirmed, rep = native.scenario(out, "analyze", params)
    panicked = any(isinstance(v, dict) and v.get("panicked") for k_, v in rep.items() if k_ != "_scenario")
    if panicked:
        out.obligation(oid, "mirsmt", "violated", time.time() - t0, witness=True, note=what, replay=rep, program=params)
        out.violation(C.Violation(key=key, what="%s — panics through analyze() on %s" % (what, params.get("hex")),
                                  replay={"engine": "mirsmt", "obligation": oid, "program": params, "native": rep}))
    else:
        out.obligation(oid, "mirsmt", "sat-unconfirmed", time.time() - t0, witness=False, note=what, replay=rep, program=params)
        out.inconc("%s: the assert is reachable for some inputs of the function but the template program did not panic "
                   "through analyze(); undecided (neither held nor violated)" % oid)
    return paths


def lifting_index_bounds(out, eng):
    """B.lifting_index_bounds: the lifting passes destructure trees whose shape the analysed bytecode chooses (the number of
    words under a Concat, of topics under a Log, ...).  Every function and closure of src/tc/lift is explored from an
    ARBITRARY input tree with vectors of arbitrary length (callees havoc'd): no path may index a vector out of bounds or
    reach an arithmetic / array-bounds assert.  `unwrap` / `expect` on havoc'd results are not counted (the havoc loses the
    guard that protects them)."""
    # functions nested in a method (`fn run(..) { fn lift_x(..) {..} }`) are dumped under their bare name right after the
    # items of their file: attribute them to the file of the nearest preceding function that names one
    fns, last_file = [], ""
    for n, f in sorted(eng.fns.items(), key=lambda kv: kv[1].line):
        m = re.search(r"(src/[\w/]+\.rs)", n)
        if m:
            last_file = m.group(1)
        if last_file.startswith(("src/tc/lift/", "src/tc/rule/", "src/opcode/")) and "::test" not in n and not re.search(r"::(fmt|clone|eq|hash|assert_fields_are_eq|as_text_code|as_byte|encode|min_gas_cost|arg_count)$", n):
            fns.append((n if m else "%s::<%s>" % (n, last_file), f))
    t0 = time.time()
    explored, skipped, flagged = 0, [], []
    local = set(id(f) for _, f in fns)
    by_name = {}
    for _, f in fns:
        by_name[f.name] = f
    for n, f in fns:
        ex = eng.explorer(havoc_unknown=True, max_visits=3, max_seconds=30)

        def body(ctx, f=f):
            ctx.vec_index_panics = True
            # only the lifting code itself (and field accessors) is followed; folding, transforming, sizing ... are havoc'd
            ctx.inline_filter = lambda name: name in by_name or bool(re.search(r"::data$|::provenance$|::instruction_pointer$|<usize as From<&?KnownWord>>::from$|<impl at src/vm/value/known.rs[^>]*>::(from|into)$", name))
            args = []
            for i, (_, t) in enumerate(f.args):
                t = t.strip()
                if t.startswith("&mut "):
                    args.append(Ref(Cell(Lazy(t[5:], "a%d" % i), "a%d" % i), (), True))
                elif t.startswith("&"):
                    args.append(Ref(Cell(Lazy(re.sub(r"^&('\w+ )?", "", t), "a%d" % i), "a%d" % i), ()))
                else:
                    args.append(Lazy(t, "a%d" % i))
            return ctx.run_fn(f, args), ctx
        try:
            paths = ex.explore(body)
        except Exception as e:       # budget / unsupported construct: the function is outside the encoded set, and said so
            skipped.append("%s (%s)" % (re.sub(r"<impl at (src/[^:]+):[^>]*>", r"<\1>", n)[-70:], str(e)[:50]))
            continue
        explored += 1
        for p in paths:
            # an arithmetic assert fed by a havoc'd callee result is not evidence (the havoc drops the relation between
            # the operands); vector indexing is modelled exactly (index < symbolic length)
            # the failing condition is the last conjunct of the path condition: it counts only if no havoc'd value occurs in it
            cond_vars = p.ctx._vars_of(p.pc[-1]) if (p.kind == "panic" and p.pc and getattr(p, "ctx", None) is not None) else set()
            # a havoc'd SCALAR ("havoc:<callee>#n") has lost its relation to the other operands; a component read out of a
            # havoc'd TREE ("havoc:<callee>#n.<path>", e.g. the word inside whatever constant_fold returned) is as free as the
            # bytecode makes it, and counts
            # (only `constant_fold` is trusted to return an arbitrary tree: what it yields is whatever constant the bytecode holds)
            havocd = any(v.startswith("havoc:") and not re.match(r"^havoc:.*constant_fold#\d+\.", v) for v in cond_vars) or not p.pc
            # `self` of an opcode / pass object (argument 0) carries constructor invariants (DupN::new: 1 <= n <= 16, ...)
            # that the constructors' own harnesses decide; a condition over those fields alone is not evidence either
            if cond_vars and all(v == "a0" or v.startswith("a0.") for v in cond_vars):
                havocd = True
            if p.kind == "panic" and ("index out of bounds" in p.msg or ("MIR assert" in p.msg and not havocd)):
                s = z3.Solver()
                for c in p.pc:
                    s.add(c)
                if s.check() == z3.sat:
                    flagged.append((n, p.msg))
                    break
    # producer invariants that the isolated exploration cannot see (each one read off the producers, and part of the claim)
    assumed = {"src/tc/rule/call_data.rs": "CallData nodes are built by CALLDATALOAD and by the 32-byte chunks of CALLDATACOPY with the constant size 32, and by "
                                           "CALLDATACOPY's other branch only with a size that did NOT fold to a constant, so `size * 8` in CallDataRule never "
                                           "sees a constant other than 32"}
    kept = []
    for n_, msg_ in flagged:
        mf = re.search(r"(src/[\w/]+\.rs)", n_)
        if mf and mf.group(1) in assumed:
            note = "assumed: %s" % assumed[mf.group(1)]
            if note not in out.assumptions:
                out.assumptions.append(note)
            continue
        kept.append((n_, msg_))
    flagged = kept
    dt = time.time() - t0
    out.extra["lifting_index_bounds"] = {"functions_explored": explored, "not_encoded": skipped}
    oid = "B.lifting_index_bounds"
    if not flagged:
        out.obligation(oid, "mirsmt", "holds", dt, witness=explored > 0, functions=explored, not_encoded=len(skipped),
                       note="no lifting function / closure can index a vector out of bounds or reach an arithmetic assert, for any input tree")
        if explored == 0:
            out.inconc("%s: no lifting function could be explored" % oid)
        return
    where = re.sub(r"<impl at (src/[^:]+):[^>]*>", r"<\1>", flagged[0][0])
    what = "%s can panic for some input tree: %s" % (where, flagged[0][1][:90])
    confirmed, rep = native.scenario(out, "idiom_corpus_panics", {})
    if confirmed:
        out.obligation(oid, "mirsmt", "violated", dt, witness=True, note=what, replay=rep)
        mfile = re.search(r"<(src/[^>]+)>", where)
        fname = re.sub(r"::<src/[^>]+>", "", where).split("::")[-1] if not where.endswith(">") else where.split("::")[0]
        out.violation(C.Violation(key="lifting-pass-panics:%s::%s" % (mfile.group(1) if mfile else "?", fname), what="%s: %s" % (oid, what),
                                  replay={"engine": "mirsmt", "native": rep}))
    else:
        out.obligation(oid, "mirsmt", "sat-unconfirmed", dt, witness=False, note=what, replay=rep)
        out.inconc("%s: %s — no program of the idiom corpus panics through analyze(); undecided" % (oid, what))


def run(out, tier):
    eng = mirrun.load_engine(out)
    out.functions += ["vm::state::memory::Memory::load_slice", "tc::lift::sub_word::insert_sub_words",
                      "KnownWord fold operations and conversions, VectorMap, StorageLayout::add, PushN, DupN/SwapN/LogN::new (Kani)"]
    out.bounds += ["A: all operand values (2 x 256 bits) per operation; containers as in C19/C12/C10",
                   "B: one call of each encoded function; the attacker constant ranges over all 2^256 values; unknown callees havoc'd"]
    out.assumptions += ["only the enumerated kernels are covered; the universal claim over all byte strings is NOT made",
                        "native stack depth of recursive transforms, allocation failure and `unify` are outside",
                        "B: callees without MIR/summary return arbitrary values (over-approximation); their side effects on arguments are ignored",
                        "a SAT site that does not panic through analyze() is listed as undecided, not as a violation"]
    sites = census(eng)
    encoded = {"load_slice": "B.load_slice.offset_plus_size", "insert_sub_words": "B.sub_word.offset_plus_shift",
               "consume_gas": "C03 O5.consume_gas", "advance": "C03 O4.advance", "disassemble": "C10 D2", "insert": "C19 vmap_one_op", "remove": "C19 vmap_one_op"}
    for s in sites:
        last = s["function"].split("::")[-1]
        s["status"] = ("decided by " + encoded[last]) if last in encoded else "not encoded"
    out.extra["assert_site_census"] = {"total": len(sites), "decided": sum(1 for s in sites if s["status"] != "not encoded"), "sites": sites}
    site_load_slice(out, eng)
    site_sub_word(out, eng)
    lifting_index_bounds(out, eng)
    names = [n for n in KANI_PANIC_FREE if n in catalog.H]
    kani.run_family(out, names + ["known_twin"], expect_fail=["known_twin"], tier=tier, classes=("panic",))
