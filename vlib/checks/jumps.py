"""Shared encoding of `JumpI::execute` / `Jump::execute` / the error arm of `VM::execute`
(used by C03-O6, C08-J3, C17).

Stack traffic and jump validation are abstracted by target-level summaries:
  * `LocatedStackHandle::pop`  -> Ok(opaque value) | Err(opaque located error)
  * `VMState::record_value`    -> ()
  * `validate_jump_destination`-> Ok(t) with t < code length and tag[t] == JumpDest (the postcondition
                                  C08-J1 proves for the real function) | Err(Located{location: ip, payload: any error})
"""
import z3

from mirsmt.containers import op_tag
from mirsmt.interp import Agg, Cell, Int, Lazy, Obj, Ref, UNIT
from mirsmt.summaries import err, ok

TARGET = z3.BitVec("jump_target", 32)


def summaries(events, vm_prefix="vm"):
    def pop(ctx, a, ty, c):
        n = sum(1 for e in ctx.events if e[0] == "pop")
        ctx.events.append(("pop", n))
        k = ctx.choose(2)
        if k == 0:
            return ok(ty, Lazy("RuntimeBoxedVal", "popped%d" % n))
        ctx.events.append(("pop-failed", n))
        return err(ty, Agg("Located", {0: Lazy("u32", "pop_err_loc%d" % n), 1: Lazy("error::execution::Error", "pop_err%d" % n)}))

    def record(ctx, a, ty, c):
        return UNIT

    def validate(ctx, a, ty, c):
        ctx.events.append(("validate",))
        k = ctx.choose(2)
        if k == 0:
            ctx.events.append(("valid-target",))
            return ok(ty, Int(TARGET, 32))
        return err(ty, Agg("Located", {0: Lazy("u32", "vj_loc"), 1: Lazy("error::execution::Error", "vj_err")}))

    def fork_current(ctx, a, ty, c):
        ctx.events.append(("fork_current_thread", ctx.force(a[1]).e, list(ctx.pc)))
        return NotImplemented

    def store_error(ctx, a, ty, c):
        ctx.events.append(("store_error", a[1]))
        return NotImplemented

    def kill(ctx, a, ty, c):
        ctx.events.append(("kill",))
        return NotImplemented

    def jump(ctx, a, ty, c):
        ctx.events.append(("jump", ctx.force(a[1]).e))
        return NotImplemented

    return [
        (r"^LocatedStackHandle::<'_>::pop$", pop),
        (r"^VMState::record_value$", record),
        (r"^(util::)?validate_jump_destination$", validate),
        (r"^VM::fork_current_thread$", fork_current),
        (r"^VM::store_error$", store_error),
        (r"^VM::kill_current_thread$", kill),
        (r"^ExecutionThread::jump$", jump),
    ]


def resolve_errors(ctx, ret):
    """Pin down the kind of every error value that reached an observable place (return value, stored errors)."""
    seen = []

    def visit(v):
        if isinstance(v, Agg):
            if v.ty.endswith("execution::Error") and v.variant is None:
                ctx.variant_of(v)
            for k in list(v.fields):
                x = v.fields[k]
                if isinstance(x, Lazy) and x.ty.endswith("execution::Error"):
                    x = ctx.as_agg(x)
                    v.fields[k] = x
                visit(v.fields[k])
    visit(ret)
    for e in ctx.events:
        if e[0] == "store_error":
            visit(e[1])


def vm_names(prefix="vm"):
    """z3 names of the pre-state pieces of a lazily named VM whose front thread has been materialised."""
    t = "%s.2[0]" % prefix
    return {
        "ip": z3.BitVec(t + ".1.0", 32),
        "code_len": z3.BitVec("%s.0.0.*.len" % prefix, 64),
        "th_code_len": z3.BitVec(t + ".1.1.*.len", 64),
        "th_tags": z3.Array(t + ".1.1.*.tags", z3.BitVecSort(64), z3.BitVecSort(16)),
        "jt_code_len": z3.BitVec("%s.1.0.1.*.len" % prefix, 64),
        "jt_tags": z3.Array("%s.1.0.1.*.tags" % prefix, z3.BitVecSort(64), z3.BitVecSort(16)),
        "jt_len": z3.BitVec("%s.1.1.0" % prefix, 32),
        "jt_limit": z3.BitVec("%s.1.1.1" % prefix, 64),
        "jt_vals": z3.Array("%s.1.1.2.vals" % prefix, z3.BitVecSort(32), z3.BitVecSort(64)),
        "jt_pres": z3.Array("%s.1.1.2.pres" % prefix, z3.BitVecSort(32), z3.BoolSort()),
        "vis_len": z3.BitVec(t + ".0.7.0", 32),
        "vis_max": z3.BitVec(t + ".0.7.1", 64),
        "vis_vals": z3.Array(t + ".0.7.2.vals", z3.BitVecSort(32), z3.BitVecSort(64)),
        "vis_pres": z3.Array(t + ".0.7.2.pres", z3.BitVecSort(32), z3.BoolSort()),
        "gas": z3.BitVec(t + ".2", 64),
        "permissive": z3.Bool("%s.4.5" % prefix),
        "killed": z3.Bool("%s.5" % prefix),
        "queue_empty": z3.Bool("%s.2.empty@0" % prefix),
    }


def vm_invariants(n):
    """Representation invariants of a VM between instructions."""
    J = z3.BitVecVal(op_tag("JumpDest"), 16)
    return [
        z3.Not(n["queue_empty"]),
        z3.ULT(z3.ZeroExt(32, n["ip"]), n["code_len"]),
        n["th_code_len"] == n["code_len"], n["jt_code_len"] == n["code_len"],
        z3.ZeroExt(32, n["jt_len"]) == n["code_len"], z3.ZeroExt(32, n["vis_len"]) == n["code_len"],
        z3.ULE(n["code_len"], z3.BitVecVal(0xffffffff, 64)),
        # the three views of the code are the same instruction vector
        n["th_tags"] == n["jt_tags"],
        # what validate_jump_destination guarantees about an accepted target (C08-J1)
        z3.ULT(z3.ZeroExt(32, TARGET), n["code_len"]),
        z3.Select(n["th_tags"], z3.ZeroExt(32, TARGET)) == J,
    ]
