"""C18-S2: for every variant of SymbolicValueData, `child_size` sums the sizes of exactly the children that
`children()` returns (Engine B).  Vector-valued fields (Log.topics, Concat.values, Packed.elements) are sequences of
two symbolic elements."""
import re
import time

import z3

from .. import common as C
from .. import native
from mirsmt.interp import Agg, Bool, Cell, Int, Lazy, Obj, PathEnd, Ref, Unsupported, UNIT, type_args
from mirsmt.summaries import load

ENUM = "vm::value::SymbolicValueData"
SEQ_LEN = 2


def extra_summaries():
    nbox = [0]

    def seq_of(lz):
        et = (type_args(lz.ty) or ["?"])[0]
        return Obj("seq", lz.ty, name=lz.name, cells=[Cell(Lazy(et, "%s[%d]" % (lz.name, i)), "%s[%d]" % (lz.name, i)) for i in range(SEQ_LEN)])

    def as_seq(ctx, r):
        from mirsmt.summaries import deref
        c, p = deref(ctx, r)
        v = ctx.read(c, p)
        if isinstance(v, Lazy) and ("SymbolicValue" in v.ty or "PackedSpan" in v.ty) and v.ty.strip().startswith(("std::vec::Vec", "Vec")):
            v = seq_of(v)
            ctx.write(c, p, v)
        return v if isinstance(v, Obj) and v.kind == "seq" else None

    def vec_deref(ctx, a, ty, c):
        return a[0] if as_seq(ctx, a[0]) is not None else NotImplemented

    def slice_iter(ctx, a, ty, c):
        s = as_seq(ctx, a[0])
        if s is None:
            return NotImplemented
        return Obj("it", ty, op="slice", cells=list(s.cells), pos=0)

    def box_new_uninit(ctx, a, ty, c):
        nbox[0] += 1
        o = Obj("boxarr", ty)
        o.cell = Cell(Agg("MaybeUninit", {}, None, "box#%d" % nbox[0]), "box#%d" % nbox[0])

        def hook(ctx_, v, idx, fty):
            return v, (lambda nv: None)
        o.field_hook = hook
        return o

    def into_vec(ctx, a, ty, c):
        o = a[0]
        if not (isinstance(o, Obj) and o.kind == "boxarr"):
            raise Unsupported("box_assume_init_into_vec_unsafe on %r" % (o,))
        v = o.cell.v
        try:
            arr = v.fields[1].fields[0].fields[0]
        except (KeyError, AttributeError):
            raise Unsupported("boxed array not initialised as expected")
        items = [arr.fields[i] for i in sorted(arr.fields)]
        return Obj("vec", ty, name="vec!", base_len=z3.BitVecVal(0, 64), pushed=items, elem_ty="?")
    return [
        (r"^<Vec<.*(SymbolicValue|PackedSpan).*> as Deref>::deref$", vec_deref),
        (r"^core::slice::<impl \[.*\]>::iter$", slice_iter),
        (r"^Box::<\[.*\]>::new_uninit$", box_new_uninit),
        (r"^(std::boxed::)?box_assume_init_into_vec_unsafe::<.*>$", into_vec),
    ]


def size_var_of(ctx, child):
    """z3 variable holding `.size()` of a child value (an Arc<SymbolicValue> that is still a symbolic input)"""
    v = child
    if isinstance(v, Ref):
        v = load(ctx, v)
    if isinstance(v, Lazy):
        return z3.BitVec(v.name + ".*.4", 64)
    if isinstance(v, Agg) and "inner" in v.attrs:
        iv = v.attrs["inner"].v
        if isinstance(iv, Lazy):
            return z3.BitVec(iv.name + ".4", 64)
        if isinstance(iv, Agg) and iv.name:
            return z3.BitVec(iv.name + ".4", 64)
    raise Unsupported("child %r" % (child,))


def s2(out, eng, pr):
    f_cs = eng.fn(">::child_size", file="src/vm/value/mod.rs")
    f_ch = None
    for n, fn in eng.fns.items():
        if n.endswith(">::children") and "src/vm/value/mod.rs" in n and fn.args and "SymbolicValueData" in fn.args[0][1]:
            f_ch = fn
    if f_ch is None:
        out.inconc("S2: SymbolicValueData::children not found")
        return
    out.functions += ["vm::value::SymbolicValueData::{child_size, children} (all 66 variants)"]
    variants = [v for v, _ in eng.src.variants(ENUM)]
    results = {}
    t0 = time.time()
    for which, f in (("child_size", f_cs), ("children", f_ch)):
        ex = eng.explorer(extra=extra_summaries(), max_visits=8)

        def body(ctx, f=f):
            cell = Cell(Lazy(ENUM + "<AuxData>", "data"), "data")
            r = ctx.run_fn(f, [Ref(cell, ())])
            v = cell.v
            if isinstance(v, Lazy):
                v = ctx.as_agg(v)
                cell.v = v
            ctx.variant_of(v)
            return r, cell, ctx
        try:
            paths = ex.explore(body)
        except Unsupported as e:
            out.obligation("S2.child_size_matches_children", "mirsmt", "inconclusive", 0, witness=False, note="%s: %s" % (which, e))
            out.inconc("S2 (%s): %s" % (which, e))
            return
        for p in paths:
            if p.kind == "panic":
                continue        # usize overflow of the sum: needs > 2^64 nodes
            if p.kind != "return":
                out.inconc("S2: %s path ends with %s %s" % (which, p.kind, p.msg[:60]))
                continue
            r, cell, ctx = p.ret
            results.setdefault(cell.v.variant, {}).setdefault(which, []).append((r, ctx, p.pc))
    bad = []
    n_ok = 0
    for var in variants:
        d = results.get(var, {})
        if "child_size" not in d or "children" not in d:
            out.inconc("S2: variant %s not explored by both functions" % var)
            continue
        # every path of child_size (e.g. both outcomes of a pointer comparison) against every path of children()
        try:
            var_ok = True
            for (cs, ctx1, pc1) in d["child_size"]:
                for (ch, ctx2, pc2) in d["children"]:
                    kids = ch.pushed if isinstance(ch, Obj) and ch.kind == "vec" else None
                    if kids is None:
                        raise Unsupported("children() returned %r" % (ch,))
                    total = z3.BitVecVal(0, 64)
                    for k in kids:
                        total = total + size_var_of(ctx2, k)
                    s = z3.Solver()
                    for c_ in pc1 + pc2:
                        s.add(c_)
                    s.add(ctx1.force(cs).e != total)
                    pr.n_queries += 1
                    if s.check() != z3.unsat:
                        var_ok = False
                        bad.append((var, str(z3.simplify(ctx1.force(cs).e)), str(z3.simplify(total))))
                        break
                if not var_ok:
                    break
            if var_ok:
                n_ok += 1
        except Unsupported as e:
            out.inconc("S2.%s: %s" % (var, e))
    dt = time.time() - t0
    if not bad:
        out.obligation("S2.child_size_matches_children", "mirsmt", "holds", dt, witness=n_ok > 0, variants=n_ok,
                       note="for each of the %d variants, child_size == sum of size() over exactly the values children() returns" % n_ok)
        return
    for var, got, want in bad:
        confirmed, rep = native.scenario(out, "node_size", {"name": var})
        what = "child_size of %s is %s but children() has sizes %s" % (var, got, want)
        oid = "S2.%s" % var
        if confirmed:
            out.obligation(oid, "mirsmt", "violated", dt, witness=True, note=what, replay=rep)
            out.violation(C.Violation(key="child-size-mismatch:%s" % var, what="S2: " + what, replay={"engine": "mirsmt", "native": rep}))
        else:
            out.obligation(oid, "mirsmt", "cex-not-reproduced", dt, witness=False, note=what, replay=rep)
            out.inconc("%s: %s (not reproduced natively: %s)" % (oid, what, rep))
