"""C18-S2 placeholder (filled in below)."""


def s2(out, eng, pr):
    out.notes.append("S2 (child_size vs children per variant) not yet encoded in this revision")
