"""C03 — execution stays within the configured bounds (Engine B, one inductive step per function).

The halting of lifting / inference / unification is NOT decided here (see DESIGN.md)."""
import re

import z3

from .. import common as C
from .. import mirrun, native
from mirsmt.containers import op_tag
from mirsmt.engine import View
from mirsmt.interp import Agg, Cell, Int, Lazy, Obj, Ref, Unsupported
from mirsmt.oblig import Prover, ev

K32 = z3.BitVec("k_other", 32)


def arrs(prefix):
    return (z3.Array(prefix + ".vals", z3.BitVecSort(32), z3.BitVecSort(64)),
            z3.Array(prefix + ".pres", z3.BitVecSort(32), z3.BoolSort()))


def count(vals, pres, k):
    return z3.If(z3.Select(pres, k), z3.Select(vals, k), z3.BitVecVal(0, 64))


def map_now(m, prefix):
    """(vals, pres) of a hashmap value that may still be an untouched Lazy."""
    if isinstance(m, Obj) and m.kind == "hashmap":
        return m.vals, m.pres
    return arrs(prefix)


def sat_inc(x):
    return z3.If(x == z3.BitVecVal(-1, 64), x, x + 1)


def variant(v):
    return v.variant if isinstance(v, Agg) else None


def run(out, tier):
    eng = mirrun.load_engine(out)
    pr = Prover(out)
    out.functions += ["vm::data::VisitedOpcodes::{mark_visited,at_visit_limit,visit_count}", "vm::data::JumpTargets::fork_to",
                      "vm::VM::advance", "vm::thread::VMThread::{fork,consume_gas}", "disassembly::ExecutionThread::{step,jump_by,at,instruction}",
                      "vm::state::VMState::fork", "error::container::Errors::add_located"]
    out.bounds += ["one call of each function from an ARBITRARY state (all u32 instruction pointers, all usize limits / counters / gas, "
                   "any visit map, any code length < 2^32, any opcode tags); representation invariants assumed are listed under assumptions",
                   "no loops in the encoded functions (max 4 visits per block, never reached)"]
    out.assumptions += ["inv-len: VisitedOpcodes.instructions_len == code length (established by VMState::new / JumpTargets::new)",
                        "inv-ip: a thread's instruction pointer is < code length (ExecutionThread invariant)",
                        "halting of lifting/inference/unification and of the whole analysis is NOT claimed"]
    ex = eng.explorer()
    vals0, pres0 = arrs("vo.2")
    ip = z3.BitVec("ip", 32)
    ln = z3.BitVec("vo.0", 32)
    mx = z3.BitVec("vo.1", 64)

    def vo_body(fname):
        f = eng.fn(">::" + fname)

        def body(ctx):
            cell = Cell(Lazy("vm::data::VisitedOpcodes", "vo"), "vo")
            r = ctx.run_fn(f, [Ref(cell, (), True), Int(ip, 32)])
            return r, cell, ctx
        return body

    # ---- O1 mark_visited ------------------------------------------------------------------------
    paths = ex.explore(vo_body("mark_visited"))

    def post_mark(p):
        r, cell, ctx = p.ret
        m = View(ctx).get(cell, "VisitedOpcodes", "data")
        v1, p1 = map_now(m, "vo.2")
        if variant(r) == "Ok":
            return z3.And(z3.ULT(ip, ln), count(v1, p1, ip) == sat_inc(count(vals0, pres0, ip)),
                          z3.Implies(K32 != ip, count(v1, p1, K32) == count(vals0, pres0, K32)))
        return z3.And(z3.UGE(ip, ln), count(v1, p1, K32) == count(vals0, pres0, K32), count(v1, p1, ip) == count(vals0, pres0, ip))
    verdict(out, pr, "O1.mark_visited", paths, post_mark, expect=3,
            what="mark_visited(ip): in range => count(ip) becomes sat(count(ip)+1) and nothing else changes; out of range => Err, map unchanged")

    # ---- O2 at_visit_limit / visit_count ------------------------------------------------------------
    paths = ex.explore(vo_body("at_visit_limit"))

    def post_limit(p):
        r, cell, ctx = p.ret
        if variant(r) == "Ok":
            b = ctx.force(r.fields[0])
            return z3.And(z3.ULT(ip, ln), b.e == z3.UGE(count(vals0, pres0, ip), mx))
        return z3.UGE(ip, ln)
    verdict(out, pr, "O2.at_visit_limit", paths, post_limit, expect=3,
            what="at_visit_limit(ip) == (count(ip) >= max) for ip in range")
    paths = ex.explore(vo_body("visit_count"))

    def post_count(p):
        r, cell, ctx = p.ret
        if variant(r) == "Ok":
            return z3.And(z3.ULT(ip, ln), ctx.force(r.fields[0]).e == count(vals0, pres0, ip))
        return z3.UGE(ip, ln)
    verdict(out, pr, "O2.visit_count", paths, post_count, expect=3, what="visit_count(ip) == count(ip) for ip in range")

    # ---- O3 fork_to ---------------------------------------------------------------------------------
    f_fork_to = eng.fn(">::fork_to")
    cur, tgt = z3.BitVec("cur", 32), z3.BitVec("tgt", 32)
    tv0, tp0 = arrs("jt.1.2")
    tlen, tlim = z3.BitVec("jt.1.0", 32), z3.BitVec("jt.1.1", 64)
    code_len = z3.BitVec("jt.0.1.*.len", 64)
    tags = z3.Array("jt.0.1.*.tags", z3.BitVecSort(64), z3.BitVecSort(16))

    def body_fork_to(ctx):
        cell = Cell(Lazy("vm::data::JumpTargets", "jt"), "jt")
        r = ctx.run_fn(f_fork_to, [Ref(cell, (), True), Int(cur, 32), Int(tgt, 32)])
        return r, cell, ctx
    paths = ex.explore(body_fork_to)
    inv_len = [z3.ZeroExt(32, tlen) == code_len]
    inv_lim = [z3.ULE(count(tv0, tp0, tgt), tlim), z3.ULE(count(tv0, tp0, K32), tlim)]

    def post_fork_to(p):
        r, cell, ctx = p.ret
        trk = View(ctx).get(cell, "JumpTargets", "tracker")
        m = View(ctx).get(trk, "VisitedOpcodes", "data") if not isinstance(trk, Lazy) else None
        v1, p1 = map_now(m, "jt.1.2")
        unchanged = z3.And(count(v1, p1, tgt) == count(tv0, tp0, tgt), count(v1, p1, K32) == count(tv0, tp0, K32))
        inv_after = z3.And(z3.ULE(count(v1, p1, tgt), tlim), z3.ULE(count(v1, p1, K32), tlim))
        if variant(r) == "Ok":
            b = ctx.force(r.fields[0]).e
            jumpi = z3.Select(tags, z3.ZeroExt(32, cur)) == z3.BitVecVal(op_tag("JumpI"), 16)
            jdest = z3.Select(tags, z3.ZeroExt(32, tgt)) == z3.BitVecVal(op_tag("JumpDest"), 16)
            shape = z3.And(jumpi, jdest, z3.ULT(z3.ZeroExt(32, cur), code_len), z3.ULT(z3.ZeroExt(32, tgt), code_len))
            forked = z3.And(z3.ULT(count(tv0, tp0, tgt), tlim), count(v1, p1, tgt) == count(tv0, tp0, tgt) + 1,
                            z3.Implies(K32 != tgt, count(v1, p1, K32) == count(tv0, tp0, K32)))
            refused = z3.And(z3.UGE(count(tv0, tp0, tgt), tlim), unchanged)
            return z3.And(shape, z3.If(b, forked, refused), inv_after)
        return z3.And(unchanged, inv_after)
    verdict(out, pr, "O3.fork_to", paths, post_fork_to, pre=inv_len + inv_lim, expect=6,
            what="fork_to grants a fork only from a JUMPI to a JUMPDEST whose fork count is below the limit, counts it exactly once, "
                 "and keeps count <= limit (inductive)")

    # ---- O5 VMThread::fork / consume_gas -------------------------------------------------------------------
    f_fork = eng.fn(">::fork", file="src/vm/thread.rs")
    f_gas = eng.fn(">::consume_gas")
    gas = z3.BitVec("th.2", 64)
    cost = z3.BitVec("cost", 64)

    def body_gas(ctx):
        cell = Cell(Lazy("vm::thread::VMThread", "th"), "th")
        ctx.run_fn(f_gas, [Ref(cell, (), True), Int(cost, 64)])
        return cell, ctx
    paths = ex.explore(body_gas)

    def post_gas(p):
        if p.kind == "panic":
            return z3.ULT(gas + cost, gas)            # only a genuine usize overflow may panic
        cell, ctx = p.ret
        g1 = View(ctx).get(cell, "VMThread", "gas_usage")
        return z3.And(g1.e == gas + cost, z3.UGE(gas + cost, gas))
    verdict(out, pr, "O5.consume_gas", paths, post_gas, kinds=("return", "panic"), expect=2,
            what="consume_gas adds exactly the cost; it panics only when the usize sum overflows (recorded under C01)")

    fork_obligation(out, eng, ex, pr)
    th_vals, th_pres = arrs("th.0.7.2")
    th_len = z3.BitVec("th.1.1.*.len", 64)
    th_ip = z3.BitVec("th.1.0", 32)
    # ---- O6 first instruction of a forked thread ---------------------------------------------------------------
    f_mark = eng.fn(">::mark_visited")
    th_max = z3.BitVec("th.0.7.1", 64)
    th_vlen = z3.BitVec("th.0.7.0", 32)

    def body_first(ctx):
        cell = Cell(Lazy("vm::thread::VMThread", "th"), "th")
        new = ctx.run_fn(f_fork, [Ref(cell, ()), Int(tgt, 32)])
        ncell = Cell(new, "forked")
        v = View(ctx)
        nip = v.get(ncell, "VMThread", "thread", "instruction_pointer")
        st_path = (("f", ctx.src.field_index("VMThread", "state"), "vm::state::VMState"),
                   ("f", ctx.src.field_index("VMState", "visited_instructions"), "vm::data::VisitedOpcodes"))
        r = ctx.run_fn(f_mark, [Ref(ncell, st_path, True), nip])
        return r, ncell, ctx
    paths = ex.explore(body_first)
    pre6 = [z3.ULT(z3.ZeroExt(32, tgt), th_len), z3.ZeroExt(32, th_vlen) == th_len,
            z3.ULT(count(th_vals, th_pres, tgt), th_max), z3.UGE(th_max, 1)]

    def post_first(p):
        r, ncell, ctx = p.ret
        v = View(ctx)
        vis = v.get(v.get(ncell, "VMThread", "state"), "VMState", "visited_instructions")
        m = v.get(vis, "VisitedOpcodes", "data")
        v1, p1 = map_now(m, "th.0.7.2")
        return z3.And(variant(r) == "Ok", z3.ULE(count(v1, p1, tgt), th_max))
    verdict(out, pr, "O6.forked_first_step", paths, post_first, pre=pre6,
            what="fork + the unchecked first mark_visited keep the target's visit count <= the limit, GIVEN the parent's count was below it")

    # the fork decision itself: JumpI::execute forks only to a target the current thread may still visit
    jumpi_fork_guard(out, eng, pr)

    # ---- O4 VM::advance ------------------------------------------------------------------------------------------
    advance(out, eng, ex, pr)
    # ---- O7 one main-loop iteration: the limit check guards the instruction actually stepped to ------------------
    main_loop_step(out, eng, pr)
    # ---- O6 structural: where threads are created --------------------------------------------------------------
    thread_sites(out, eng)
    out.extra["solver_queries"] = pr.n_queries + ex.stats["queries"]
    out.extra["paths_explored"] = ex.stats["paths"]


def fork_obligation(out, eng, ex, pr, oid="O5.fork"):
    f_fork = eng.fn(">::fork", file="src/vm/thread.rs")
    tgt = z3.BitVec("tgt", 32)
    gas = z3.BitVec("th.2", 64)
    th_vals, th_pres = arrs("th.0.7.2")
    th_len = z3.BitVec("th.1.1.*.len", 64)
    th_ip = z3.BitVec("th.1.0", 32)

    def body_fork(ctx):
        cell = Cell(Lazy("vm::thread::VMThread", "th"), "th")
        r = ctx.run_fn(f_fork, [Ref(cell, ()), Int(tgt, 32)])
        return r, cell, ctx
    try:
        paths = ex.explore(body_fork)
    except Unsupported as e:
        out.obligation(oid, "mirsmt", "inconclusive", 0, witness=False, note=str(e))
        out.inconc("%s: %s" % (oid, e))
        return

    def post_fork(p):
        r, cell, ctx = p.ret
        v = View(ctx)
        g = v.get(r, "VMThread", "gas_usage")
        nip = v.get(r, "VMThread", "thread", "instruction_pointer")
        st = v.get(r, "VMThread", "state")
        vis = v.get(st, "VMState", "visited_instructions")
        m = v.get(vis, "VisitedOpcodes", "data") if not isinstance(vis, Lazy) else None
        v1, p1 = map_now(m, "th.0.7.2")
        same_counts = z3.And(count(v1, p1, K32) == count(th_vals, th_pres, K32), count(v1, p1, tgt) == count(th_vals, th_pres, tgt))
        in_range = z3.ULT(z3.ZeroExt(32, tgt), th_len)
        return z3.And(g.e == gas, same_counts, z3.If(in_range, nip.e == tgt, nip.e == th_ip))
    verdict(out, pr, oid, paths, post_fork, what="fork copies gas usage and every visit count; the new thread starts at the target",
            replay=lambda p, m: native.scenario(out, "fork_gas", {}), key="fork-does-not-copy-thread-accounting")



def verdict(out, pr, oid, paths, post, pre=None, kinds=("return",), expect=None, what="", replay=None, key=None):
    return _verdict(out, pr, oid, paths, post, pre, kinds, expect, what, replay, key)


def _verdict(out, pr, oid, paths, post, pre, kinds, expect, what, replay, key):
    for p in paths:
        if p.kind == "panic" and "panic" not in kinds:
            # an unexpected reachable panic inside the encoded function is C01 business; here it only must not hide paths
            out.notes.append("%s: panic path present (%s)" % (oid, p.msg[:80]))
    try:
        res, data = pr.check_paths(oid, paths, post, pre=pre, kinds=kinds, expect_paths=expect, note=what)
    except Unsupported as e:
        out.obligation(oid, "mirsmt", "inconclusive", 0, witness=False, note=str(e))
        out.inconc("%s: %s" % (oid, e))
        return
    if res != "violated":
        return
    p, model, dt = data
    from mirsmt.oblig import model_dict
    md = {k: v for k, v in model_dict(model).items() if not k.startswith("k!")}
    confirmed, rep = (None, None)
    if replay is not None:
        confirmed, rep = replay(p, model)
    if confirmed:
        out.obligation(oid, "mirsmt", "violated", dt, witness=True, model=md, replay=rep, note=what)
        out.violation(C.Violation(key=key or oid, what="%s: %s" % (oid, what), replay={"engine": "mirsmt", "obligation": oid, "model": md, "native": rep}))
    else:
        out.obligation(oid, "mirsmt", "cex-not-reproduced", dt, witness=False, model=md, replay=rep, note=what)
        out.inconc("%s: solver model not reproduced natively (%s)" % (oid, rep))


def jumpi_fork_guard(out, eng, pr):
    from . import jumps
    f = eng.fn(">::execute", file="src/opcode/control.rs:201") if False else None
    for n, fn in eng.fns.items():
        if n.endswith(">::execute") and "src/opcode/control.rs" in n:
            loc = _impl_loc(n)
            if loc and "for JumpI" in eng.src.impl_header(*loc):
                f = fn
    if f is None:
        out.inconc("O6: JumpI::execute not found in the MIR dump")
        return
    ex = eng.explorer(extra=jumps.summaries(None))

    def body(ctx):
        cell = Cell(Lazy("vm::VM", "vm"), "vm")
        r = ctx.run_fn(f, [Ref(Cell(Agg("opcode::control::JumpI"), "self"), ()), Ref(cell, (), True)])
        return r, cell, ctx
    try:
        paths = ex.explore(body)
    except Unsupported as e:
        out.obligation("O6.jumpi_fork_guard", "mirsmt", "inconclusive", 0, witness=False, note=str(e))
        out.inconc("O6.jumpi_fork_guard: %s" % e)
        return
    n = jumps.vm_names()
    inv = jumps.vm_invariants(n)
    import time
    t0 = time.time()
    forks = 0
    for p in paths:
        evs = [e for e in p.ctx.events if e[0] == "fork_current_thread"]
        if len(evs) > 1:
            out.obligation("O6.jumpi_fork_guard", "mirsmt", "inconclusive", 0, witness=False, note="more than one fork on a path")
            out.inconc("O6: JumpI::execute forks more than once on a path")
            return
        for (_, tgt_e, pc) in evs:
            forks += 1
            s = z3.Solver()
            for c in pc + inv:
                s.add(c)
            below = z3.ULT(count(n["vis_vals"], n["vis_pres"], tgt_e), n["vis_max"])
            s.add(z3.Not(z3.And(below, tgt_e == jumps.TARGET)))
            pr.n_queries += 1
            if s.check() != z3.unsat:
                m = s.model()
                mxv = ev(m, n["vis_max"])
                confirmed, rep = native.scenario(out, "fork_first_visit", {"max_iterations": max(1, min(mxv, 6))})
                if not confirmed:
                    confirmed, rep = native.scenario(out, "loop_family_visits", {"max_iterations": 3})
                what = ("JumpI::execute forks to a target the current thread has already visited `max` times; the forked thread then "
                        "executes it once more without a limit check (per-thread visits = limit + 1)")
                if confirmed:
                    out.obligation("O6.jumpi_fork_guard", "mirsmt", "violated", time.time() - t0, witness=True, replay=rep, note=what)
                    out.violation(C.Violation(key="forked-thread-first-instruction-exceeds-iteration-limit", what="O6: " + what,
                                              replay={"engine": "mirsmt", "obligation": "O6.jumpi_fork_guard", "native": rep}))
                else:
                    out.obligation("O6.jumpi_fork_guard", "mirsmt", "cex-not-reproduced", time.time() - t0, witness=False, replay=rep)
                    out.inconc("O6.jumpi_fork_guard: solver model not reproduced natively: %s" % rep)
                return
    # O8: the per-target fork counter moves exactly with the forks (one inductive step of the fork budget)
    def post_budget(p):
        r, cell, ctx = p.ret
        v = View(ctx)
        jt = v.get(cell, "VM", "jump_targets")
        trk = v.get(jt, "JumpTargets", "tracker") if not isinstance(jt, Lazy) else None
        m = v.get(trk, "VisitedOpcodes", "data") if trk is not None and not isinstance(trk, Lazy) else None
        v1, p1 = map_now(m, "vm.1.1.2")
        v0, p0 = n["jt_vals"], n["jt_pres"]
        forked = [e for e in ctx.events if e[0] == "fork_current_thread"]
        t = jumps.TARGET
        if forked:
            return z3.And(count(v1, p1, t) == count(v0, p0, t) + 1, z3.ULE(count(v1, p1, t), n["jt_limit"]),
                          z3.Implies(K32 != t, count(v1, p1, K32) == count(v0, p0, K32)))
        return z3.And(count(v1, p1, t) == count(v0, p0, t), count(v1, p1, K32) == count(v0, p0, K32))
    verdict(out, pr, "O8.fork_budget_accounting", paths, post_budget, pre=inv + [z3.ULE(count(n["jt_vals"], n["jt_pres"], jumps.TARGET), n["jt_limit"])],
            replay=lambda p, m: native.scenario(out, "fork_budget", {}), key="fork-budget-not-tied-to-forks",
            what="JumpI::execute raises a target's fork count by exactly one when it forks to it and leaves every fork count unchanged otherwise")
    if forks == 0:
        out.obligation("O6.jumpi_fork_guard", "mirsmt", "vacuous", time.time() - t0, witness=False)
        out.inconc("O6.jumpi_fork_guard: no path of JumpI::execute forks (vacuous)")
        return
    out.obligation("O6.jumpi_fork_guard", "mirsmt", "holds", time.time() - t0, witness=True, paths=len(paths), forking_paths=forks,
                   note="every fork in JumpI::execute goes to the validated target and only while the current thread's visit count of it is below the limit")


def advance(out, eng, ex, pr, oid="O4.advance", key=None, replay=None):
    f = eng.fn(">::advance")

    def body(ctx):
        cell = Cell(Lazy("vm::VM", "vm"), "vm")
        r = ctx.run_fn(f, [Ref(cell, (), True)])
        return r, cell, ctx
    try:
        paths = ex.explore(body)
    except Unsupported as e:
        out.obligation(oid, "mirsmt", "inconclusive", 0, witness=False, note=str(e))
        out.inconc("%s: %s" % (oid, e))
        return
    # pre-state names
    ip = z3.BitVec("vm.2[0].1.0", 32)
    code_len = z3.BitVec("vm.0.0.*.len", 64)
    th_code_len = z3.BitVec("vm.2[0].1.1.*.len", 64)
    gas = z3.BitVec("vm.2[0].2", 64)
    gas_limit = z3.BitVec("vm.4.0", 64)
    killed = z3.Bool("vm.5")
    vals, pres = arrs("vm.2[0].0.7.2")
    vmax = z3.BitVec("vm.2[0].0.7.1", 64)
    vlen = z3.BitVec("vm.2[0].0.7.0", 32)
    pre = [z3.ULT(z3.ZeroExt(32, ip), code_len), th_code_len == code_len, z3.ZeroExt(32, vlen) == code_len,
           z3.ULE(code_len, z3.BitVecVal(0xffffffff, 64))]
    nxt = ip + 1
    keep = z3.And(z3.ULT(z3.ZeroExt(32, nxt), code_len), z3.ULT(count(vals, pres, nxt), vmax), z3.ULE(gas, gas_limit), z3.Not(killed))

    def post(p):
        if p.kind == "panic":
            return z3.BoolVal(False)          # no panic is reachable from a valid state
        r, cell, ctx = p.ret
        v = View(ctx)
        q = v.get(cell, "VM", "thread_queue")
        if variant(r) == "Err":
            # only the empty-queue programmer error may be reported
            return z3.Bool("vm.2.empty@0")
        stored = v.get(cell, "VM", "stored_states")
        n_stored = len(stored.pushed) if isinstance(stored, Obj) else 0
        errs = v.get(cell, "VM", "errors")
        n_errs = 0
        if isinstance(errs, Agg) and 0 in errs.fields and isinstance(errs.fields[0], Obj):
            n_errs = len(errs.fields[0].pushed)
        killed_now = v.get(cell, "VM", "current_thread_killed")
        popped = isinstance(q, Obj) and getattr(q, "popped", 0) == 1
        if popped:
            gas_err = z3.BoolVal(n_errs == 1)
            located_here = z3.BoolVal(True)
            if n_errs == 1:
                # the error is reported at the instruction that was being executed (a location inside the code)
                e0 = errs.fields[0].pushed[0]
                locs = []
                if isinstance(e0, Agg):
                    for fv in e0.fields.values():
                        fv = ctx.force(fv)
                        if isinstance(fv, Int) and fv.bits == 32:
                            locs.append(fv.e)
                located_here = z3.And([l == ip for l in locs]) if locs else z3.BoolVal(False)
            return z3.And(z3.Not(keep), z3.BoolVal(n_stored == 1), z3.Not(killed_now.e), gas_err == z3.UGT(gas, gas_limit), located_here)
        front = q.elems[0]
        nip = v.get(front, "VMThread", "thread", "instruction_pointer")
        return z3.And(keep, nip.e == nxt, z3.BoolVal(n_stored == 0), z3.BoolVal(n_errs == 0), killed_now.e == killed)
    if replay is None:
        def replay(p, model):
            gas_reason = ev(model, z3.UGT(gas, gas_limit))
            if gas_reason:
                return native.scenario(out, "error_kind", {"kind": "GasLimitExceeded"},
                                       judge=lambda d: d.get("permissive_ok", False) or d.get("strict_ok", False) or d.get("gas_location_wrong", False))
            return native.scenario(out, "jump_loop_visits", {"max_iterations": 2})
    verdict(out, pr, oid, paths, post, pre=pre, kinds=("return", "panic"), replay=replay, key=key or "vm-advance-bounds",
            what="advance keeps the thread iff next offset is in range, below the visit limit, gas <= limit and not killed (then ip' = ip+1); "
                 "otherwise it retires the thread exactly once, clears the kill flag and records GasLimitExceeded, located at the current instruction, iff gas was the reason")


def main_loop_step(out, eng, pr):
    from . import c17, jumps
    try:
        paths, ex = c17.main_loop(eng, havoc_ip=True)
    except Unsupported as e:
        out.obligation("O7.main_loop_step", "mirsmt", "inconclusive", 0, witness=False, note=str(e))
        out.inconc("O7: %s" % e)
        return
    n = jumps.vm_names()
    inv = [c for c in jumps.vm_invariants(n)][:7] + [z3.UGE(c17.POLL, 1), z3.ULT(z3.ZeroExt(32, c17.IP_AFTER), n["code_len"]),
                                                      z3.UGE(n["vis_max"], 1)]
    ip, nxt = n["ip"], c17.IP_AFTER + 1
    # visit counts after this iteration's mark_visited(ip)
    cnt = lambda k: z3.If(k == ip, sat_inc(count(n["vis_vals"], n["vis_pres"], k)), count(n["vis_vals"], n["vis_pres"], k))

    def post(p):
        ctx = p.ctx
        ops = [e for e in ctx.events if e[0] == "op"]
        if not ops or ops[0][1] != "ok" or p.kind != "cut":
            return None
        cell = ctx.vmcell
        q = View(ctx).get(cell, "VM", "thread_queue")
        if not (isinstance(q, Obj) and q.elems) or getattr(q, "popped", 0):
            return None          # the thread was retired
        nip = View(ctx).get(q.elems[0], "VMThread", "thread", "instruction_pointer").e
        return z3.And(nip == nxt, z3.ULT(z3.ZeroExt(32, nxt), n["code_len"]), z3.ULT(cnt(nxt), n["vis_max"]))

    def replay(p, model):
        return native.scenario(out, "jump_loop_visits", {"max_iterations": max(1, min(ev(model, n["vis_max"]), 4))})
    verdict(out, pr, "O7.main_loop_step", paths, post, pre=inv, kinds=("cut",), replay=replay,
            key="limit-check-not-applied-to-the-instruction-stepped-to",
            what="after an instruction that moved the instruction pointer (JUMP), the thread continues only if the offset it steps to "
                 "is inside the code and below the per-opcode iteration limit")
    gas_charged_for_executed_instruction(out, pr, paths, n, inv)


def gas_charged_for_executed_instruction(out, pr, paths, n, inv):
    """O9: when the executed opcode succeeds and the thread goes on, its gas grew by exactly the minimum cost of the
    instruction that was executed (the one at the pointer before execution), wherever the opcode moved the pointer."""
    from . import c17
    ip = n["ip"]

    def post(p):
        ctx = p.ctx
        ops = [e for e in ctx.events if e[0] == "op"]
        if not ops or ops[0][1] != "ok" or p.kind != "cut":
            return None
        cell = ctx.vmcell
        q = View(ctx).get(cell, "VM", "thread_queue")
        if not (isinstance(q, Obj) and q.elems) or getattr(q, "popped", 0):
            return None
        g1 = View(ctx).get(q.elems[0], "VMThread", "gas_usage")
        g1 = ctx.force(g1).e
        return g1 == n["gas"] + c17.GAS_AT(z3.ZeroExt(32, ip))

    def replay(p, model):
        return native.scenario(out, "jump_gas", {})
    verdict(out, pr, "O9.gas_charged_for_executed_instruction", paths, post, pre=inv + [z3.ULT(n["gas"], z3.BitVecVal(1 << 62, 64)),
            z3.ULT(c17.GAS_AT(z3.ZeroExt(32, ip)), z3.BitVecVal(1 << 32, 64))], kinds=("cut",), replay=replay,
            key="gas-not-charged-for-the-executed-instruction",
            what="a successful instruction adds exactly its own minimum cost to the thread's gas, also when it moved the instruction pointer")


def thread_sites(out, eng):
    """Which functions create or enqueue threads (regenerated from the MIR on every run)."""
    want = {
        "VMThread::fork": {"fork_current_thread"},
        "VM::fork_current_thread": {"execute"},          # JumpI::execute
        "VM::enqueue_thread": {"fork_current_thread"},
        "VMThread::new": {"new", "fork"},
    }
    found = {k: set() for k in want}
    owners = {k: [] for k in want}
    for name, f in eng.fns.items():
        if "::test::" in name or "{closure" in name and "test" in name:
            continue
        for b in f.blocks.values():
            t = b.term or ""
            for k in want:
                if re.search(r"(?<![\w:])%s\(" % re.escape(k), t):
                    found[k].add(name.split("::")[-1])
                    owners[k].append(name)
    ok = True
    for k in want:
        if not found[k] <= want[k]:
            ok = False
    # fork_current_thread must be called from JumpI::execute only
    for o in owners["VM::fork_current_thread"]:
        hdr = eng.src.impl_header(*_impl_loc(o)) if _impl_loc(o) else ""
        if "JumpI" not in hdr:
            ok = False
    out.obligation("O6.thread_creation_sites", "mirsmt-callgraph", "holds" if ok else "inconclusive", 0, witness=True,
                   sites={k: sorted(owners[k]) for k in owners},
                   note="threads are created only in VM::new and VM::fork_current_thread, the latter only from JumpI::execute "
                        "(so threads <= 1 + fork limit x #JUMPDEST follows from O3)")
    if not ok:
        out.inconc("O6: thread creation sites differ from the ones the bound argument covers: %s" % {k: sorted(v) for k, v in owners.items()})


def _impl_loc(name):
    m = re.search(r"<impl at (src/[^:]+):(\d+):", name)
    return (m.group(1), int(m.group(2))) if m else None
