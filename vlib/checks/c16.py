"""C16 — combining typing evidence is independent of order and grouping (Engine A).

S: merge(a,b) ~ merge(b,a) for every unordered kind pair (28 harnesses, payloads symbolic).
T: merge(merge(a,b),c) ~ merge(a,merge(b,c)) for every kind triple (343 harnesses)."""
from .. import catalog, kani, mirrun

# Quick tier (must stay well under 15 minutes including the Kani build of its harnesses): symmetry for every pair
# plus associativity for every triple over {bytes, word, dyn} (where all findings live) and a cross-section of
# triples involving the constructors and `any`.  Thorough tier: all 216 triples without a conflict input.
QUICK_EXTRA = ["any_word_word", "word_any_dyn", "word_word_any", "any_dyn_bytes", "mapping_mapping_mapping", "fixed_fixed_fixed",
               "dyn_mapping_word", "mapping_word_mapping", "word_mapping_dyn", "fixed_word_fixed", "mapping_fixed_dyn",
               "any_mapping_fixed", "bytes_mapping_bytes", "fixed_dyn_fixed", "word_fixed_bytes"]


def quick_assoc():
    out = []
    core = {"bytes", "word", "dyn"}
    for n in catalog.MERGE_ASSOC:
        ks = n[len("merge_assoc_"):].split("_")
        if all(k in core for k in ks) or "_".join(ks) in QUICK_EXTRA:
            out.append(n)
    return out


def n_conflicts(name):
    return name.split("_")[2:].count("conflict")


def absorbing_lemma(out):
    """Engine B on the MIR of `merge`: a Conflict on either side always yields a Conflict (for any partner except the
    internal `Equal` marker, which panics by design).  This decides every pair / triple of D with two or more conflicts,
    whose Kani harnesses do not finish (recursive `TypeExpression == TypeExpression` on two conflicts)."""
    from mirsmt.interp import Agg, Bool, Cell, Lazy, Obj, Ref, Unsupported
    import z3
    eng = mirrun.load_engine(out)
    f = eng.fns.get("merge") or eng.fn("unification::merge")
    TE = "tc::expression::TypeExpression"
    n_eq = [0]

    def te_eq(ctx, a, ty, c):
        n_eq[0] += 1
        return Bool(z3.Bool("te_eq#%d" % n_eq[0]))

    def conflict_with(ctx, a, ty, c):
        return Agg(TE, {}, "Conflict")

    def te_clone(ctx, a, ty, c):
        from mirsmt.summaries import load
        v = load(ctx, a[0])
        return v
    extra = [(r"^<TypeExpression as PartialEq>::eq$", te_eq), (r"^TypeExpression::conflict_with::<.*>$", conflict_with),
             (r"^<TypeExpression as Clone>::clone$", te_clone)]
    for side in ("left", "right"):
        ex = eng.explorer(extra=extra, max_visits=6)

        def body(ctx, side=side):
            n_eq[0] = 0
            conflict = Agg(TE, {}, "Conflict")
            conflict.name = "conflict"
            other = Lazy(TE, "other")
            args = [conflict, other] if side == "left" else [other, conflict]
            st = Cell(Lazy("TypeCheckerState", "state"), "state")
            other = ctx.as_agg(other)
            args = [conflict, other] if side == "left" else [other, conflict]
            ctx.other = other
            r = ctx.run_fn(f, args + [Lazy("TypeVariable", "parent"), Ref(st, (), True)])
            ctx.variant_of(other)
            return r, ctx
        oid = "L.conflict_absorbs_%s" % side
        try:
            paths = ex.explore(body)
        except Unsupported as e:
            out.obligation(oid, "mirsmt", "inconclusive", 0, witness=False, note=str(e))
            out.inconc("%s: %s" % (oid, e))
            continue
        bad = None
        seen = set()
        for p in paths:
            other_variant = None
            for t in p.ctx.trace:
                if t[0] == "variant" and t[1] == "other":
                    other_variant = t[2]
            seen.add(other_variant)
            if p.kind == "panic":
                o = getattr(p.ctx, "other", None)
                if other_variant is None and o is not None and o.attrs.get("discr") is not None:
                    # unresolved on this path: the path condition must force the partner to be the Equal marker
                    sol = z3.Solver()
                    for c_ in p.pc:
                        sol.add(c_)
                    sol.add(o.attrs["discr"] != z3.BitVecVal(eng.src.variant_index(TE, "Equal"), 64))
                    if sol.check() == z3.unsat:
                        other_variant = "Equal"
                        seen.add("Equal")
                if other_variant != "Equal":
                    bad = "merge panics with a conflict against %s" % other_variant
                continue
            if p.kind != "return":
                bad = "path ends with %s" % p.kind
                continue
            r = p.ret[0]
            expr = r.fields.get(eng.src.field_index("Merge", "expression")) if isinstance(r, Agg) else None
            ok = isinstance(expr, Agg) and expr.variant == "Conflict"
            # `left == right` held (uninterpreted equality): the returned operand equals the conflict
            eq_true = any(str(c_) == "te_eq#1" for c_ in p.pc)
            if eq_true and (isinstance(expr, Lazy) or (isinstance(expr, Agg) and getattr(expr, "name", None) in ("other", "conflict"))):
                ok = True
            for fld in ("equalities", "judgements", "ty_vars"):
                v = r.fields.get(eng.src.field_index("Merge", fld))
                if not (isinstance(v, Obj) and v.kind == "vec" and not v.pushed):
                    ok = False
            if not ok:
                bad = "a conflict merged with %s gives %s" % (other_variant, getattr(expr, "variant", expr))
        if bad:
            out.obligation(oid, "mirsmt", "violated-unconfirmed", 0, witness=False, note=bad)
            out.inconc("%s: %s (no native scenario)" % (oid, bad))
        else:
            out.obligation(oid, "mirsmt", "holds", 0, witness=True, paths=len(paths), partners=sorted(x for x in seen if x),
                           note="merge(Conflict, x) and merge(x, Conflict) are Conflict with no equalities/judgements for every x "
                                "(panic only for the internal Equal marker)")


def run(out, tier):
    out.functions += ["tc::unification::merge", "tc::expression::WordUse::merge"]
    out.bounds += ["evidence domain D of the property (see C15), kinds concrete per harness, payloads symbolic: "
                   "ALL ordered pairs (28 unordered kind pairs x both orders; conflict x conflict by lemma L) and, thorough tier, "
                   "ALL 343 kind triples (216 by Kani, the 127 with a conflict input by lemma L); "
                   "quick tier: symmetry + %d triples (all 27 over {bytes, word, dyn} + a cross-section)" % len(quick_assoc()),
                   "outcomes compared up to conflict wording (conflict = kind only) and up to the representative "
                   "among variables equated by the emitted equalities",
                   "unwind 8 with unwinding assertions"]
    out.trusted += ["Kani 0.68 / CBMC 6.11", "stub: TypeExpression::conflict_with -> payload-free Conflict",
                    "stub: uuid::Uuid::new_v4 -> counter"]
    out.assumptions += ["intermediate results are re-built constructor by constructor before the next merge "
                        "(identical value except a conflict's payload)",
                        "Packed evidence is outside D"]
    absorbing_lemma(out)
    names = [n for n in catalog.MERGE_SYM if n_conflicts(n) <= 1]
    names += [n for n in (catalog.MERGE_ASSOC if tier == "thorough" else quick_assoc()) if n_conflicts(n) == 0]
    out.assumptions.append("triples of D containing a conflict (and the pair conflict x conflict) are decided by the absorbing lemma L "
                           "(Engine B on merge's MIR) instead of a Kani harness: with L, both groupings of such a triple are Conflict. "
                           "(Their Kani harnesses do not finish: an intermediate conflict meets the input conflict in "
                           "`TypeExpression == TypeExpression`, which recurses through Vec<Box<TypeExpression>>.)")
    kani.run_family(out, names + ["merge_twin"], expect_fail=["merge_twin"], tier=tier,
                    timeout_s=240 if tier == "quick" else 900)
