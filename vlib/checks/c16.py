"""C16 — combining typing evidence is independent of order and grouping (Engine A).

S: merge(a,b) ~ merge(b,a) for every unordered kind pair (28 harnesses, payloads symbolic).
T: merge(merge(a,b),c) ~ merge(a,merge(b,c)) for every kind triple (343 harnesses)."""
from .. import catalog, kani

# quick tier: every triple over the kinds whose merges interact (bytes, word, dyn, conflict, any) is
# in the thorough tier; quick runs symmetry for all pairs plus the triples containing at least two
# of {word, bytes, dyn}, which is where every finding so far lives.
HOT = {"word", "bytes", "dyn"}


def quick_assoc():
    out = []
    for n in catalog.MERGE_ASSOC:
        ks = n[len("merge_assoc_"):].split("_")
        if sum(1 for k in ks if k in HOT) >= 2 and len(set(ks)) >= 2:
            out.append(n)
    return out


def run(out, tier):
    out.functions += ["tc::unification::merge", "tc::expression::WordUse::merge"]
    out.bounds += ["evidence domain D of the property (see C15), kinds concrete per harness, payloads symbolic: "
                   "ALL ordered pairs (28 unordered kind pairs x both orders) and, thorough tier, ALL 343 kind triples; "
                   "quick tier: symmetry + the %d triples with at least two of {word, bytes, dyn}" % len(quick_assoc()),
                   "outcomes compared up to conflict wording (conflict = kind only) and up to the representative "
                   "among variables equated by the emitted equalities",
                   "unwind 8 with unwinding assertions"]
    out.trusted += ["Kani 0.68 / CBMC 6.11", "stub: TypeExpression::conflict_with -> payload-free Conflict",
                    "stub: uuid::Uuid::new_v4 -> counter"]
    out.assumptions += ["intermediate results are re-built constructor by constructor before the next merge "
                        "(identical value except a conflict's payload)",
                        "Packed evidence is outside D"]
    names = list(catalog.MERGE_SYM)
    names += catalog.MERGE_ASSOC if tier == "thorough" else quick_assoc()
    kani.run_family(out, names + ["merge_twin"], expect_fail=["merge_twin"], tier=tier,
                    timeout_s=300 if tier == "quick" else 900)
