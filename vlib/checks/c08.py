"""C08 — control flow is followed exactly as the EVM allows (Engine B).

J1  validate_jump_destination: Ok(t) => the FULL 256-bit constant equals t, t < code length, tag[t] == JUMPDEST
J2  (from the C10 encoding of the disassembler) push immediates are never JUMPDEST   [reported by C10's run, referenced here]
J3  halting opcodes kill the thread; Jump sets the pointer to the validated target; JumpI forks only to it.
"""
import re
import time

import z3

from .. import common as C
from .. import mirrun, native
from . import jumps
from .c03 import verdict, variant, _impl_loc
from mirsmt.containers import op_tag
from mirsmt.engine import View
from mirsmt.interp import Agg, Cell, Int, Lazy, Obj, Ref, Unsupported, UNIT
from mirsmt.oblig import Prover, ev


def find_execute(eng, file, type_name):
    for n, fn in eng.fns.items():
        if n.endswith(">::execute") and file in n:
            loc = _impl_loc(n)
            if loc and re.search(r"for %s\b" % type_name, eng.src.impl_header(*loc)):
                return fn
    return None


def j1(out, eng, pr):
    f = eng.fns.get("validate_jump_destination") or eng.fn("validate_jump_destination")

    def constant_fold(ctx, a, ty, c):
        b = Agg("Arc<SymbolicValue<()>>", {})
        b.attrs["inner"] = Cell(Lazy("vm::value::SymbolicValue<()>", "folded"), "folded")
        return b

    def value_le(ctx, a, ty, c):
        fn = ctx.resolve(c)
        r = ctx.run_fn(fn, a)
        ctx.events.append(("known_value", ctx.force(r).e))
        return r

    def as_u32(ctx, a, ty, c):
        x = ctx.force(a[0])
        return Int(z3.Extract(31, 0, x.e), 32)

    def try_from_u256(ctx, a, ty, c):
        from mirsmt.summaries import ok, err
        x = ctx.force(a[0])
        fits = z3.ULE(x.e, z3.BitVecVal(0xffffffff, 256))
        if ctx.branch([fits, z3.Not(fits)]) == 0:
            return ok(ty, Int(z3.Extract(31, 0, x.e), 32))
        return err(ty, Obj("TryFromIntError"))

    # what an instruction entry encodes to, as far as a comparison with the single byte 0x5b can tell: only JUMPDEST encodes
    # to exactly [0x5b] among the assigned opcodes; an Invalid entry re-encodes whatever byte it stands for (possibly 0x5b:
    # the bytes of a PUSH cut short by the end of the code are Invalid entries)
    INVB = z3.Function("byte_of_invalid_entry_at", z3.BitVecSort(64), z3.BitVecSort(8))
    OTHB = z3.Function("first_byte_of_entry_at", z3.BitVecSort(64), z3.BitVecSort(8))
    OTHL = z3.Function("encoded_length_of_entry_at", z3.BitVecSort(64), z3.BitVecSort(64))

    def encode(ctx, a, ty, c):
        from mirsmt.containers import _op_of
        op = _op_of(ctx, a[0])
        at = op.at if z3.is_bv(op.at) else z3.BitVecVal(int(op.at), 64)
        tag = op.tag if not isinstance(op.tag, int) else z3.BitVecVal(op.tag, 16)
        is_jd = tag == z3.BitVecVal(op_tag("JumpDest"), 16)
        is_inv = tag == z3.BitVecVal(op_tag("Invalid"), 16)
        b = z3.If(is_jd, z3.BitVecVal(0x5b, 8), z3.If(is_inv, INVB(at), OTHB(at)))
        ln = z3.If(z3.Or(is_jd, is_inv), z3.BitVecVal(1, 64), OTHL(at))
        ctx.assume(z3.Implies(z3.Not(z3.Or(is_jd, is_inv)), z3.Not(z3.And(OTHL(at) == 1, OTHB(at) == 0x5b))))
        return Obj("bytes", "Vec<u8>", name="encoded", arr=z3.Store(z3.K(z3.BitVecSort(64), z3.BitVecVal(0, 8)), z3.BitVecVal(0, 64), b), len=ln)

    def vec_eq_array(ctx, a, ty, c):
        from mirsmt.summaries import load
        v = load(ctx, a[0]) if isinstance(a[0], Ref) else a[0]
        arr = load(ctx, a[1]) if isinstance(a[1], Ref) else a[1]
        if not (isinstance(v, Obj) and v.kind == "bytes" and isinstance(arr, Agg)):
            return NotImplemented
        elems = [ctx.force(arr.fields[i]).e for i in sorted(arr.fields)]
        cs = [v.len == z3.BitVecVal(len(elems), 64)] + [z3.Select(v.arr, z3.BitVecVal(i, 64)) == e for i, e in enumerate(elems)]
        from mirsmt.interp import Bool
        return Bool(z3.And(cs))

    extra = [(r"^SymbolicValue::<\(\)>::constant_fold$", constant_fold), (r"^KnownWord::value_le$", value_le),
             (r"^<dyn Opcode as Opcode>::encode$", encode), (r"^<Vec<u8> as PartialEq<\[u8; \d+\]>>::(eq|ne)$", vec_eq_array)]
    ex = eng.explorer(extra=extra)

    def body(ctx):
        cell = Cell(Lazy("vm::VM", "vm"), "vm")
        counter = Cell(Lazy("Arc<SymbolicValue<()>>", "counter"), "counter")
        r = ctx.run_fn(f, [Ref(counter, ()), Ref(cell, (), True)])
        return r, cell, ctx
    try:
        paths = ex.explore(body)
    except Unsupported as e:
        out.obligation("J1.validate_jump_destination", "mirsmt", "inconclusive", 0, witness=False, note=str(e))
        out.inconc("J1: %s" % e)
        return
    n = jumps.vm_names()
    code_len, tags = n["th_code_len"], n["th_tags"]
    JD = z3.BitVecVal(op_tag("JumpDest"), 16)
    n_ok = [0]

    def post(p):
        r, cell, ctx = p.ret
        if variant(r) != "Ok":
            return None
        n_ok[0] += 1
        t = ctx.force(r.fields[0]).e
        known = [e[1] for e in ctx.events if e[0] == "known_value"]
        if len(known) != 1:
            return z3.BoolVal(False)
        return z3.And(z3.ZeroExt(224, t) == known[0], z3.ULT(z3.ZeroExt(32, t), code_len), z3.Select(tags, z3.ZeroExt(32, t)) == JD)

    def replay(p, model):
        r, cell, ctx = p.ret
        known = [e[1] for e in ctx.events if e[0] == "known_value"][0]
        full = ev(model, known)
        confirmed, rep = native.scenario(out, "jump_target_bits", {"target_hex": "%064x" % full})
        if not confirmed:
            confirmed, rep = native.scenario(out, "jump_into_truncated_push", {})
        return confirmed, rep
    verdict(out, pr, "J1.validate_jump_destination", paths, post, replay=replay, key="jump-target-truncated-to-32-bits",
            what="a jump target is accepted only when the full 256-bit constant is the offset of a JUMPDEST inside the code")
    # every rejecting path returns one of the jump-validation errors, located at the current instruction pointer
    ip = n["ip"]

    def post_err(p):
        r, cell, ctx = p.ret
        if variant(r) != "Err":
            return None
        located = r.fields[0]
        payload = located.fields.get(1)
        loc = located.fields.get(0)
        if isinstance(payload, Agg) and payload.variant in ("NoConcreteJumpDestination", "NonExistentJumpTarget", "InvalidJumpTarget", "InvalidOffsetForJump"):
            return ctx.force(loc).e == ip
        if isinstance(payload, Agg) and payload.variant == "NoSuchThread":
            return n["queue_empty"]
        return z3.BoolVal(False)
    verdict(out, pr, "J1.rejections", paths, post_err,
            what="a rejected jump yields a jump-validation error located at the jumping instruction")


def run(out, tier):
    eng = mirrun.load_engine(out)
    pr = Prover(out)
    out.functions += ["opcode::util::validate_jump_destination", "vm::value::known::KnownWord::value_le",
                      "disassembly::ExecutionThread::{instruction,jump}", "opcode::control::{Jump,JumpI,Stop,Return,Revert,Invalid}::execute",
                      "opcode::environment::SelfDestruct::execute", "vm::VM::{kill_current_thread,fork_current_thread,instruction_pointer,execution_thread_mut}"]
    out.bounds += ["jump target: all 2^256 constant values and every non-constant node kind (66 variants); code length < 2^32; "
                   "opcode tag per offset symbolic", "one call of each function from an arbitrary valid VM state"]
    out.assumptions += ["constant_fold's result is an arbitrary value (its meaning-preservation is C09)",
                        "stack traffic of the opcodes is abstracted (pop -> arbitrary value or arbitrary error)",
                        "reachability-set EQUALITY for loop-free code is outside (needs whole runs)"]
    j1(out, eng, pr)
    j3(out, eng, pr)
    error_ends_path(out, eng, pr)
    # the taken branch of a JUMPI really starts at the target: VMThread::fork puts the new thread there (any target inside the code)
    from . import c03
    c03.fork_obligation(out, eng, eng.explorer(), pr, oid="J3.forked_branch_starts_at_target")
    # "both outcomes of every conditional jump are explored": a JUMPI whose *target* is rejected (any of the four bad-jump
    # kinds) still has its fall-through outcome, so JumpI::execute must return Ok with the thread alive; only non-jump
    # errors may end the path.  Same obligation as C17 E2 (classification of the validation error), replayed natively by
    # error_kind(kind, jumpi) whose judge includes "the instruction behind the JUMPI was never visited".
    from . import c17
    c17.e2(out, eng, pr)
    out.extra["solver_queries"] = pr.n_queries


def j3(out, eng, pr):
    """Halting opcodes end the path; Jump/JumpI transfer control only to the validated target."""
    t0 = time.time()
    halting = [("src/opcode/control.rs", "Stop"), ("src/opcode/control.rs", "Return"), ("src/opcode/control.rs", "Revert"),
               ("src/opcode/control.rs", "Invalid"), ("src/opcode/environment.rs", "SelfDestruct")]
    extra = jumps.summaries(None) + halting_summaries()
    for file, ty in halting:
        f = find_execute(eng, file, ty)
        oid = "J3.%s_ends_path" % ty.lower()
        if f is None:
            out.inconc("%s: execute not found" % oid)
            continue
        ex = eng.explorer(extra=extra)

        def body(ctx, f=f, ty=ty):
            cell = Cell(Lazy("vm::VM", "vm"), "vm")
            me = Cell(Lazy("opcode::%s" % ty, "self"), "self")
            r = ctx.run_fn(f, [Ref(me, ()), Ref(cell, (), True)])
            return r, cell, ctx
        try:
            paths = ex.explore(body)
        except Unsupported as e:
            out.obligation(oid, "mirsmt", "inconclusive", 0, witness=False, note=str(e))
            out.inconc("%s: %s" % (oid, e))
            continue

        def post(p):
            r, cell, ctx = p.ret
            if variant(r) != "Ok":
                return None          # an Err return makes VM::execute kill the thread (C17-E1)
            killed = View(ctx).get(cell, "VM", "current_thread_killed")
            return killed.e

        def replay(p, model, ty=ty):
            return native.scenario(out, "halting_opcode", {"opcode": {"Stop": 0x00, "Return": 0xf3, "Revert": 0xfd, "Invalid": 0xfe, "SelfDestruct": 0xff}[ty]})
        verdict(out, pr, oid, paths, post, replay=replay, key="%s-does-not-end-path" % ty.lower(),
                what="%s: every successful execution marks the current thread as killed, so the path ends there" % ty.upper())
    # Jump
    f = find_execute(eng, "src/opcode/control.rs", "Jump")
    if f is not None:
        ex = eng.explorer(extra=jumps.summaries(None))

        def body_j(ctx):
            cell = Cell(Lazy("vm::VM", "vm"), "vm")
            r = ctx.run_fn(f, [Ref(Cell(Agg("opcode::control::Jump"), "self"), ()), Ref(cell, (), True)])
            return r, cell, ctx
        try:
            paths = ex.explore(body_j)
            n = jumps.vm_names()
            inv = jumps.vm_invariants(n)

            def post_j(p):
                r, cell, ctx = p.ret
                v = View(ctx)
                q = v.get(cell, "VM", "thread_queue")
                valid = any(e[0] == "valid-target" for e in ctx.events)
                if variant(r) != "Ok":
                    return z3.BoolVal(not valid)     # an accepted target never turns into an error
                if not (isinstance(q, Obj) and q.elems):
                    return z3.BoolVal(False)
                nip = v.get(q.elems[0], "VMThread", "thread", "instruction_pointer").e
                killed = v.get(cell, "VM", "current_thread_killed").e
                if valid:
                    return z3.And(nip == jumps.TARGET, killed == n["killed"])
                # no accepted target: the only Ok outcome is the killed thread (unresolvable destination), pointer untouched
                return z3.And(killed, nip == n["ip"])
            verdict(out, pr, "J3.jump_goes_to_validated_target", paths, post_j, pre=inv,
                    what="JUMP moves the instruction pointer to exactly the validated target; otherwise it ends the path or reports the error")
        except Unsupported as e:
            out.obligation("J3.jump_goes_to_validated_target", "mirsmt", "inconclusive", 0, witness=False, note=str(e))
            out.inconc("J3.jump: %s" % e)
    # JumpI
    f = find_execute(eng, "src/opcode/control.rs", "JumpI")
    if f is not None:
        ex = eng.explorer(extra=jumps.summaries(None))

        def body_i(ctx):
            cell = Cell(Lazy("vm::VM", "vm"), "vm")
            r = ctx.run_fn(f, [Ref(Cell(Agg("opcode::control::JumpI"), "self"), ()), Ref(cell, (), True)])
            return r, cell, ctx
        try:
            paths = ex.explore(body_i)
            n = jumps.vm_names()
            inv = jumps.vm_invariants(n)

            def post_i(p):
                r, cell, ctx = p.ret
                v = View(ctx)
                forks = [e for e in ctx.events if e[0] == "fork_current_thread"]
                valid = any(e[0] == "valid-target" for e in ctx.events)
                conds = [z3.BoolVal(len(forks) <= 1), z3.BoolVal(valid or not forks)]
                for (_, tgt, _) in forks:
                    conds.append(tgt == jumps.TARGET)
                if variant(r) == "Ok":
                    q = v.get(cell, "VM", "thread_queue")
                    if isinstance(q, Obj) and q.elems:
                        nip = v.get(q.elems[0], "VMThread", "thread", "instruction_pointer").e
                        conds.append(nip == n["ip"])          # the fall-through branch stays where it is
                        conds.append(v.get(cell, "VM", "current_thread_killed").e == n["killed"])
                return z3.And(conds)
            verdict(out, pr, "J3.jumpi_explores_both_branches", paths, post_i, pre=inv,
                    what="JUMPI forks at most once, only to the validated target, and leaves the fall-through thread alive at the JUMPI")
            # both outcomes are explored while the limits allow: with a valid target, fork count below the limit and the
            # target below the visit limit, some path forks
            below = z3.And(z3.ULT(jumps_count(n, "jt", jumps.TARGET), n["jt_limit"]), z3.ULT(jumps_count(n, "vis", jumps.TARGET), n["vis_max"]),
                           z3.Select(n["th_tags"], z3.ZeroExt(32, n["ip"])) == z3.BitVecVal(op_tag("JumpI"), 16))
            t1 = time.time()
            witness = False
            for p in paths:
                if p.kind != "return" or variant(p.ret[0]) != "Ok":
                    continue
                if not any(e[0] == "valid-target" for e in p.ctx.events):
                    continue
                forks = [e for e in p.ctx.events if e[0] == "fork_current_thread"]
                s = z3.Solver()
                for c in p.pc + inv + [below]:
                    s.add(c)
                pr.n_queries += 1
                if s.check() == z3.sat and not forks:
                    out.obligation("J3.jumpi_forks_when_allowed", "mirsmt", "violated-unconfirmed", time.time() - t1, witness=False)
                    out.inconc("J3: a path with a valid target and limits not reached does not fork (no native scenario for it)")
                    break
                if forks:
                    witness = True
            else:
                out.obligation("J3.jumpi_forks_when_allowed", "mirsmt", "holds" if witness else "vacuous", time.time() - t1, witness=witness,
                               note="with a valid target, fork count < limit and the target below the visit limit, every successful path forks")
                if not witness:
                    out.inconc("J3.jumpi_forks_when_allowed: vacuous")
        except Unsupported as e:
            out.obligation("J3.jumpi_explores_both_branches", "mirsmt", "inconclusive", 0, witness=False, note=str(e))
            out.inconc("J3.jumpi: %s" % e)


def error_ends_path(out, eng, pr):
    """In the VM main loop, an instruction that fails (a rejected jump in particular) always ends its path — in strict
    and in permissive mode — so nothing behind it is executed on that thread."""
    from . import c17
    try:
        paths, ex = c17.main_loop(eng)
    except Unsupported as e:
        out.obligation("J3.error_ends_path", "mirsmt", "inconclusive", 0, witness=False, note=str(e))
        out.inconc("J3.error_ends_path: %s" % e)
        return
    n = jumps.vm_names()
    inv = [c for c in jumps.vm_invariants(n)][:7] + [z3.UGE(c17.POLL, 1)]

    def post(p):
        ctx = p.ctx
        ops = [e for e in ctx.events if e[0] == "op"]
        if not ops or ops[0][1] != "err":
            return None
        killed_evt = any(e[0] == "kill" for e in ctx.events)
        if p.kind == "cut":
            # the loop continues: the failing thread must have been retired by advance()
            q = View(ctx).get(ctx.vmcell, "VM", "thread_queue")
            retired = isinstance(q, Obj) and getattr(q, "popped", 0) >= 1
            return z3.BoolVal(killed_evt and retired)
        return z3.BoolVal(True)

    def replay(p, model):
        located = [e for e in p.ctx.events if e[0] == "op_err"][0][1]
        kind = located.fields[1].variant
        if kind in c17.BAD_JUMP:
            return native.scenario(out, "rejected_jump_falls_through", {"permissive": 1 if ev(model, n["permissive"]) else 0})
        return native.scenario(out, "halting_opcode", {"opcode": 0x50})
    verdict(out, pr, "J3.error_ends_path", paths, post, pre=inv, kinds=("cut", "return"), replay=replay,
            key="failing-instruction-does-not-end-path",
            what="an instruction that raises an execution error ends its path in both modes (a rejected JUMP never falls through)")


def jumps_count(n, which, k):
    return z3.If(z3.Select(n[which + "_pres"], k), z3.Select(n[which + "_vals"], k), z3.BitVecVal(0, 64))


def halting_summaries():
    """Everything the halting opcodes do besides ending the path is abstracted away."""
    from mirsmt.summaries import ok, err

    def opaque_ok_or_err(name):
        def f(ctx, a, ty, c):
            k = ctx.choose(2)
            if k == 0:
                return ok(ty, Lazy("?", name))
            return err(ty, Agg("Located", {0: Lazy("u32", name + "_loc"), 1: Lazy("error::execution::Error", name + "_err")}))
        return f

    def unit(ctx, a, ty, c):
        return UNIT

    def opaque(ctx, a, ty, c):
        return ctx.fresh(ty, "opaque")
    return [
        (r"^Memory::load_slice$|^Memory::load$", opaque),
        (r"^ValueBuilder::", opaque),
        (r"^VMState::(record_value|log_value)$", unit),
        (r"^<Arc<.*> as Clone>::clone$", opaque),
        (r"^SymbolicValue::<\(\)>::", opaque),
        (r"^VM::build$", opaque),
    ]
