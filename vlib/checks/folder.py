"""C09-F2: structure of `constant_folder` (Engine B), one obligation per variant of SymbolicValueData.

Children are opaque; `transform_data` / `as_word` are uninterpreted; every KnownWord operation is a
named uninterpreted operation whose meaning is decided by C09-F1 (Kani).  For each foldable variant:
  (i)   all operands constant  => KnownData(OP(operands in the EVM roles of the variant's fields))
  (ii)  otherwise              => the SAME variant whose fields are the transformed children of the same fields
  (iii) every other variant    => None
"""
import time

import z3

from .. import common as C
from .. import native
from mirsmt.interp import Agg, Bool, Cell, Int, Lazy, Obj, Ref, Unsupported, UNIT
from mirsmt.summaries import none, some

# variant -> (operation, operand field names in the operation's argument order, commutative?)
TABLE = {
    "Add": ("add", ["left", "right"], True),
    "Multiply": ("mul", ["left", "right"], True),
    "Subtract": ("sub", ["left", "right"], False),
    "Divide": ("div", ["dividend", "divisor"], False),
    "SignedDivide": ("signed_div", ["dividend", "divisor"], False),
    "Modulo": ("rem", ["dividend", "divisor"], False),
    "SignedModulo": ("signed_rem", ["dividend", "divisor"], False),
    "Exp": ("exp", ["value", "exponent"], False),
    "LessThan": ("lt", ["left", "right"], False),
    "GreaterThan": ("gt", ["left", "right"], False),
    "SignedLessThan": ("signed_lt", ["left", "right"], False),
    "SignedGreaterThan": ("signed_gt", ["left", "right"], False),
    "Equals": ("from_bool(eq)", ["left", "right"], True),
    "IsZero": ("is_zero", ["number"], False),
    "And": ("bitand", ["left", "right"], True),
    "Or": ("bitor", ["left", "right"], True),
    "Xor": ("bitxor", ["left", "right"], True),
    "Not": ("not", ["value"], False),
    "LeftShift": ("shl", ["value", "shift"], False),
    "RightShift": ("shr", ["value", "shift"], False),
    "ArithmeticRightShift": ("sar", ["value", "shift"], False),
}
ENUM = "vm::value::SymbolicValueData"


def summaries():
    def transform_data(ctx, a, ty, c):
        src = a[0]
        v = src.cell.v if isinstance(src, Ref) and not src.path else None
        name = v.name if isinstance(v, Lazy) else (getattr(v, "src", None) if isinstance(v, Obj) else None)
        if name is None:
            raise Unsupported("transform_data on %r" % (src,))
        return Obj("transformed", "Arc<SymbolicValue>", src=name.replace(".*", ""), known=None)

    def as_word(ctx, a, ty, c):
        from mirsmt.summaries import load
        v = load(ctx, a[0])
        if not (isinstance(v, Obj) and v.kind == "transformed"):
            raise Unsupported("as_word on %r" % (v,))
        if v.known is None:
            v.known = ctx.choose(2) == 0
        if v.known:
            return some(ty, Obj("kw", "KnownWord", term=("word", v.src)))
        return none(ty)

    def kwop(ctx, a, ty, c):
        import re
        m = re.match(r"^<KnownWord as (?:std::ops::)?(\w+)>::(\w+)$|^KnownWord::(\w+)$", c)
        op = m.group(2) or m.group(3)
        from mirsmt.summaries import load
        args = []
        for x in a:
            v = load(ctx, x) if isinstance(x, (Ref, Lazy)) else x
            args.append(v.term if isinstance(v, Obj) and v.kind in ("kw", "kwbool") else ("?", repr(v)))
        if op == "eq":
            return Obj("kwbool", "bool", term=("eq",) + tuple(args))
        return Obj("kw", "KnownWord", term=(op,) + tuple(args))

    def from_bool(ctx, a, ty, c):
        v = a[0]
        if isinstance(v, Obj) and v.kind == "kwbool":
            return Obj("kw", "KnownWord", term=("from_bool", v.term))
        raise Unsupported("KnownWord::from(bool) on %r" % (v,))
    return [
        (r"^SymbolicValue::<AuxData>::transform_data::<.*>$", transform_data),
        (r"^SymbolicValue::<AuxData>::as_word$", as_word),
        (r"^<KnownWord as From<bool>>::from$", from_bool),
        (r"^<KnownWord as (std::ops::)?(Add|Sub|Mul|Div|Rem|BitAnd|BitOr|BitXor|Not|Shl|Shr|PartialEq)>::\w+$", kwop),
        (r"^KnownWord::(signed_div|signed_rem|exp|lt|gt|signed_lt|signed_gt|is_zero|sar)$", kwop),
    ]


def field_name(src, variant, idx):
    return src.field_name(ENUM, idx, variant)


def run_f2(out, eng):
    f = eng.fns.get("constant_folder")
    if f is None:
        out.inconc("F2: constant_folder not found in the MIR dump")
        return
    out.functions += ["vm::value::SymbolicValueData::constant_fold::constant_folder (all 66 variants)", "vm::value::SymbolicValueData::new_known"]
    ex = eng.explorer(extra=summaries(), max_visits=6)

    def body(ctx):
        cell = Cell(Lazy(ENUM + "<AuxData>", "data"), "data")
        r = ctx.run_fn(f, [Ref(cell, ())])
        v = cell.v
        if isinstance(v, Lazy):
            v = ctx.as_agg(v)
            cell.v = v
        ctx.variant_of(v)          # pin down which variant this path is about
        return r, cell, ctx
    t0 = time.time()
    try:
        paths = ex.explore(body)
    except Unsupported as e:
        out.obligation("F2.constant_folder", "mirsmt", "inconclusive", 0, witness=False, note=str(e))
        out.inconc("F2: %s" % e)
        return
    variants = [v for v, _ in eng.src.variants(ENUM)]
    by_variant = {}
    for p in paths:
        if p.kind != "return":
            out.inconc("F2: non-returning path in constant_folder: %s %s" % (p.kind, p.msg[:80]))
            continue
        r, cell, ctx = p.ret
        var = None
        for t in ctx.trace:
            if t[0] == "variant" and t[1] == "data":
                var = t[2]
        by_variant.setdefault(var, []).append(p)
    missing = [v for v in variants if v not in by_variant]
    if missing:
        out.inconc("F2: variants not explored: %s" % missing[:5])
    for var in variants:
        ps = by_variant.get(var, [])
        oid = "F2.%s" % var
        bad = None
        for p in ps:
            r, cell, ctx = p.ret
            if var not in TABLE:
                if not (isinstance(r, Agg) and r.variant == "None"):
                    bad = "non-foldable variant %s is rewritten by the folder" % var
                continue
            op, roles, comm = TABLE[var]
            if not (isinstance(r, Agg) and r.variant == "Some"):
                bad = "foldable variant %s: folder returned None" % var
                continue
            res = r.fields[0]
            # which children were constant on this path?
            known = {}
            for idx in range(len(roles)):
                pass
            kids = [o for o in _objs(res)] if False else None
            if isinstance(res, Agg) and res.variant == "KnownData":
                kw = res.fields.get(0)
                term = kw.term if isinstance(kw, Obj) else None
                want_args = [("word", "data.%s.%d" % (var, eng.src.field_index(ENUM, role, var))) for role in roles]
                if op == "from_bool(eq)":
                    ok = term is not None and term[0] == "from_bool" and term[1][0] == "eq" and \
                        (list(term[1][1:]) == want_args or list(term[1][1:]) == want_args[::-1])
                else:
                    ok = term is not None and term[0] == op and (list(term[1:]) == want_args or (comm and list(term[1:]) == want_args[::-1]))
                if not ok:
                    bad = "%s with constant operands folds to %s, expected %s%s" % (var, term, op, tuple(a[1] for a in want_args))
            else:
                if not (isinstance(res, Agg) and res.variant == var):
                    bad = "%s with a non-constant operand is rebuilt as %s" % (var, getattr(res, "variant", res))
                    continue
                for idx, child in res.fields.items():
                    want = "data.%s.%d" % (var, idx)
                    if not (isinstance(child, Obj) and child.kind == "transformed" and child.src == want):
                        bad = "%s: field %s is rebuilt from %s" % (var, field_name(eng.src, var, idx), getattr(child, "src", child))
        if not ps:
            continue
        if bad is None:
            out.obligation(oid, "mirsmt", "holds", 0, witness=True, paths=len(ps))
        else:
            # confirm natively by folding a concrete tree of that shape
            confirmed, rep = native.scenario(out, "fold_variant", {"name": var})
            if confirmed:
                out.obligation(oid, "mirsmt", "violated", 0, witness=True, note=bad, replay=rep)
                out.violation(C.Violation(key="constant_folder:%s" % var, what="F2: " + bad,
                                          replay={"engine": "mirsmt", "obligation": oid, "native": rep}))
            else:
                out.obligation(oid, "mirsmt", "cex-not-reproduced", 0, witness=False, note=bad, replay=rep)
                out.inconc("%s: %s (not reproduced natively: %s)" % (oid, bad, rep))
    out.extra["F2_paths"] = len(paths)
    out.extra["F2_explore_s"] = round(time.time() - t0, 1)


def _objs(v):
    return []


def run_transform(out, eng):
    """C09-F2(iii): the generic rebuild in `SymbolicValueData::transform` (used by folding for every node the folder
    does not rewrite): the same variant comes back and every child field holds the transformed child of the SAME field."""
    from . import sizes
    f = None
    for n, fn in eng.fns.items():
        if n.endswith(">::transform") and "src/vm/value/mod.rs" in n and fn.args and "SymbolicValueData" in fn.args[0][1]:
            f = fn
    if f is None:
        out.inconc("F2.transform: SymbolicValueData::transform not found")
        return
    out.functions += ["vm::value::SymbolicValueData::transform (generic rebuild, all 66 variants)", "vm::value::PackedSpan::transform"]

    def call_param(ctx, a, ty, c):
        return none(ty)          # the transformation declines: the generic rebuild runs
    extra = summaries() + sizes.extra_summaries() + [(r"^<impl Fn.* as Fn<.*>>::call$", call_param)]
    # transform_data on children is uninterpreted (summaries()), with a twist: children inside vectors are cells
    ex = eng.explorer(extra=extra, max_visits=8)

    def body(ctx):
        cell = Cell(Lazy(ENUM + "<AuxData>", "data"), "data")
        r = ctx.run_fn(f, [Ref(cell, ()), Obj("fnparam", "impl Fn")])
        v = cell.v
        if isinstance(v, Lazy):
            v = ctx.as_agg(v)
            cell.v = v
        ctx.variant_of(v)
        return r, cell, ctx
    t0 = time.time()
    try:
        paths = ex.explore(body)
    except Unsupported as e:
        out.obligation("F2.transform_rebuilds_in_place", "mirsmt", "inconclusive", 0, witness=False, note=str(e))
        out.inconc("F2.transform: %s" % e)
        return
    bad = []
    seen = set()
    for p in paths:
        if p.kind != "return":
            if p.kind != "panic":
                out.inconc("F2.transform: path ends with %s %s" % (p.kind, p.msg[:60]))
            continue
        r, cell, ctx = p.ret
        var = cell.v.variant
        seen.add(var)
        if isinstance(r, (Lazy, Agg)) and getattr(r, "name", None) == "data" and not (isinstance(r, Agg) and r.fields):
            continue                     # a clone of the input itself (variants without children)
        if not (isinstance(r, Agg) and r.variant == var):
            bad.append((var, "rebuilt as %s" % getattr(r, "variant", r)))
            continue
        for idx, child in r.fields.items():
            want = "data.%s.%d" % (var, idx)
            if isinstance(child, Obj) and child.kind == "transformed":
                if child.src != want:
                    bad.append((var, "field %s rebuilt from %s" % (field_name(eng.src, var, idx), child.src)))
            elif isinstance(child, Obj) and child.kind == "vec":
                for k, item in enumerate(child.pushed):
                    src = None
                    if isinstance(item, Obj) and item.kind == "transformed":
                        src = item.src
                    elif isinstance(item, Agg):         # PackedSpan { offset, size, value }
                        val = item.fields.get(2)
                        src = val.src if isinstance(val, Obj) and val.kind == "transformed" else None
                        src = src.rsplit(".", 1)[0] if src and src.endswith(".2") else src
                    if src != "%s[%d]" % (want, k):
                        bad.append((var, "element %d of %s rebuilt from %s" % (k, field_name(eng.src, var, idx), src)))
    variants = [v for v, _ in eng.src.variants(ENUM)]
    missing = [v for v in variants if v not in seen]
    if missing:
        out.inconc("F2.transform: variants not explored: %s" % missing[:5])
    dt = time.time() - t0
    if not bad:
        out.obligation("F2.transform_rebuilds_in_place", "mirsmt", "holds", dt, witness=bool(seen), variants=len(seen))
        return
    for var, why in bad:
        confirmed, rep = native.scenario(out, "node_size", {"name": var}) if False else native.scenario(out, "fold_variant", {"name": var})
        what = "transform of %s: %s" % (var, why)
        if confirmed:
            out.obligation("F2.transform.%s" % var, "mirsmt", "violated", dt, witness=True, note=what, replay=rep)
            out.violation(C.Violation(key="transform:%s" % var, what="F2: " + what, replay={"engine": "mirsmt", "native": rep}))
        else:
            out.obligation("F2.transform.%s" % var, "mirsmt", "cex-not-reproduced", dt, witness=False, note=what, replay=rep)
            out.inconc("F2.transform.%s: %s (not reproduced natively)" % (var, what))
