"""C19 (forest half, Engine B): one DisjointSet operation from an ARBITRARY VALID FOREST over a universe of N elements,
against a partition model.  Value = usize, Data = 8-bit set under `|` (lost or duplicated data is visible).
`VectorMap::{get,insert,remove,iter}` are inlined from the MIR, so the map's indexing is exercised too."""
import time

import z3

from .. import common as C
from .. import native
from .c03 import verdict
from mirsmt.interp import Agg, Bool, Cell, Int, Lazy, Obj, Ref, Unsupported, UNIT
from mirsmt.iterators import optvec
from mirsmt.oblig import Prover, ev
from mirsmt.summaries import load

BV = lambda v, b=64: z3.BitVecVal(v, b)


def sel(arr, idx, default):
    """arr: python list of z3 terms; idx: BV64"""
    r = default
    for k in reversed(range(len(arr))):
        r = z3.If(idx == BV(k), arr[k], r)
    return r


def instantiation():
    def ld(ctx, a, ty, c):
        v = a[0]
        while isinstance(v, (Ref,)) or (isinstance(v, Lazy) and v.ty.strip().startswith("&")):
            v = load(ctx, v)
        return ctx.force(v)

    def eq(ctx, a, ty, c):
        return Bool(ld(ctx, [a[0]], ty, c).e == ld(ctx, [a[1]], ty, c).e)

    def combine(ctx, a, ty, c):
        return Int(ctx.force(a[0]).e | ctx.force(a[1]).e, 8)

    def zero(ctx, a, ty, c):
        return Int(0, 8)

    def ident(ctx, a, ty, c):
        return ctx.force(a[0])
    return [
        (r"^<(Value|K|V|Data) as Clone>::clone$", ld),
        (r"^<Value as PartialEq>::eq$", eq),
        (r"^<(Value|K) as ToUniqueIndex>::index$", ld),
        (r"^<Value as FromUniqueIndex>::from_index$", ident),
        (r"^<Data as Combine>::combine$", combine),
        (r"^<Data as Combine>::identity$|^<Data as Default>::default$", zero),
    ]


class State:
    def __init__(self, n):
        self.n = n
        self.rp = [z3.BitVec("reps[%d].discr" % i, 64) == 1 for i in range(n)]
        self.rv = [z3.BitVec("reps[%d].Some.0" % i, 64) for i in range(n)]
        self.dp = [z3.BitVec("data[%d].discr" % i, 64) == 1 for i in range(n)]
        self.dv = [z3.BitVec("data[%d].Some.0" % i, 8) for i in range(n)]


def root(rp, rv, i, n):
    r = i
    for _ in range(n):
        r = z3.If(sel(rp, r, z3.BoolVal(False)), sel(rv, r, r), r)
    return r


def valid(rp, rv, dp, n):
    cs = []
    for i in range(n):
        r = root(rp, rv, BV(i), n)
        cs.append(z3.Implies(rp[i], z3.And(z3.ULT(rv[i], BV(n)), sel(rp, rv[i], z3.BoolVal(False)),
                                           sel(rv, r, BV(-1)) == r, sel(rp, r, z3.BoolVal(False)))))
        cs.append(z3.Implies(dp[i], z3.And(rp[i], rv[i] == BV(i))))
    return z3.And(cs)


def cls_data(rp, rv, dp, dv, i, n):
    r = root(rp, rv, i, n)
    return z3.If(sel(dp, r, z3.BoolVal(False)), sel(dv, r, BV(0, 8)), BV(0, 8))


def opt_state(ctx, cell, bits):
    """(present, value) of a cell holding an Option"""
    v = cell.v
    name = cell.label
    if isinstance(v, Lazy):
        return z3.BitVec(v.name + ".discr", 64) == 1, z3.BitVec(v.name + ".Some.0", bits)
    if isinstance(v, Agg):
        if v.variant == "None":
            return z3.BoolVal(False), BV(0, bits)
        if v.variant == "Some":
            x = v.fields.get(0)
            if isinstance(x, Lazy):
                x = ctx.force(x)
            if x is None:
                x = ctx.force(Lazy("u%d" % bits if bits != 64 else "usize", "%s.Some.0" % v.name))
            return z3.BoolVal(True), x.e
        if v.name is not None:
            return z3.BitVec(v.name + ".discr", 64) == 1, z3.BitVec(v.name + ".Some.0", bits)
    raise Unsupported("option cell %r" % (v,))


def run_forest(out, eng, tier):
    n = 3 if tier == "quick" else 4
    pr = Prover(out)
    out.functions += ["data::disjoint_set::DisjointSet::{insert,find,union,add_data,set_data,get_data,sets}",
                      "data::vector_map::VectorMap::{get,insert,remove,iter} (inlined)"]
    out.bounds += ["forest: universe of %d elements, arbitrary valid forest (parents in range and present, acyclic, data only at roots), "
                   "ONE operation with symbolic arguments; data = 8-bit sets under union; recursion of find bounded by the universe" % n]
    out.assumptions += ["the production instantiation (HashSet data) shares the generic code; Combine for HashSet is not executed",
                        "keys beyond the universe (vector growth) are outside the forest check (covered for the map by vmap_grow)"]
    S = State(n)
    pre_inv = valid(S.rp, S.rv, S.dp, n)
    A, B2, D = z3.BitVec("arg_a", 64), z3.BitVec("arg_b", 64), z3.BitVec("arg_d", 8)
    pre = [pre_inv, z3.ULT(A, BV(n)), z3.ULT(B2, BV(n))]
    cnt = lambda ps: sum([z3.If(p_, BV(1), BV(0)) for p_ in ps], BV(0))
    pre.append(z3.BitVec("reps.size", 64) == cnt(S.rp))       # the vector map's own invariant (C19 vector-map half)
    pre.append(z3.BitVec("data.size", 64) == cnt(S.dp))
    for i in range(n):
        pre.append(z3.ULE(z3.BitVec("reps[%d].discr" % i, 64), 1))
        pre.append(z3.ULE(z3.BitVec("data[%d].discr" % i, 64), 1))
    file = "src/data/disjoint_set.rs"

    def mkstate():
        reps = Agg("VectorMap<Value, Value>", {0: Obj("phantom"), 1: optvec("reps", "usize", n), 2: Lazy("usize", "reps.size")}, None, "reps.extra")
        data = Agg("VectorMap<Value, Data>", {0: Obj("phantom"), 1: optvec("data", "u8", n), 2: Lazy("usize", "data.size")}, None, "data.extra")
        return Cell(Agg("DisjointSet<Value, Data>", {0: reps, 1: data}), "ds")

    def post_arrays(ctx, cell):
        ds = cell.v
        rcells = ds.fields[0].fields[1].cells
        dcells = ds.fields[1].fields[1].cells
        if len(rcells) != n or len(dcells) != n:
            raise Unsupported("vector grew")
        rp1, rv1, dp1, dv1 = [], [], [], []
        for c_ in rcells:
            p_, v_ = opt_state(ctx, c_, 64)
            rp1.append(p_)
            rv1.append(v_)
        for c_ in dcells:
            p_, v_ = opt_state(ctx, c_, 8)
            dp1.append(p_)
            dv1.append(v_)
        return rp1, rv1, dp1, dv1

    def frame_conditions(ctx, cell, cls_of, data_of):
        """partition' == partition induced by cls_of; data per class == data_of; invariant re-established"""
        rp1, rv1, dp1, dv1 = post_arrays(ctx, cell)
        cs = [valid(rp1, rv1, dp1, n)]
        for i in range(n):
            for j in range(i + 1, n):
                cs.append((root(rp1, rv1, BV(i), n) == root(rp1, rv1, BV(j), n)) == (cls_of(BV(i)) == cls_of(BV(j))))
            cs.append(cls_data(rp1, rv1, dp1, dv1, BV(i), n) == data_of(BV(i)))
        return z3.And(cs)
    rt = lambda i: root(S.rp, S.rv, i, n)
    dat = lambda i: cls_data(S.rp, S.rv, S.dp, S.dv, i, n)

    def explore(fname, args):
        f = eng.fn(">::" + fname, file=file)
        # the universe of 4 multiplies the paths of union / sets; the thorough tier gives each exploration 15 minutes
        ex = eng.explorer(extra=instantiation(), max_visits=n + 3, max_seconds=150 if tier == "quick" else 900)

        def body(ctx):
            cell = mkstate()
            ctx.assume(z3.And(pre))
            r = ctx.run_fn(f, [Ref(cell, (), True)] + args(ctx))
            return r, cell, ctx
        return ex.explore(body)
    ops = []
    # find
    ops.append(("find", lambda ctx: [Ref(Cell(Int(A, 64), "a"), ())],
                lambda p: z3.And(p.ret[2].force(p.ret[0]).e == rt(A), frame_conditions(p.ret[2], p.ret[1], rt, dat)),
                "find(a) returns the class representative and changes neither the partition nor any class's data"))
    # union
    ra, rb = rt(A), rt(B2)
    cls_u = lambda i: z3.If(rt(i) == rb, ra, rt(i))
    dat_u = lambda i: z3.If(cls_u(i) == ra, dat(A) | dat(B2), dat(i))
    ops.append(("union", lambda ctx: [Ref(Cell(Int(A, 64), "a"), ()), Ref(Cell(Int(B2, 64), "b"), ())],
                lambda p: frame_conditions(p.ret[2], p.ret[1], cls_u, dat_u),
                "union(a,b) merges exactly the two classes and the merged class carries the union of both data; nothing else changes"))
    ops.append(("add_data", lambda ctx: [Ref(Cell(Int(A, 64), "a"), ()), Int(D, 8)],
                lambda p: frame_conditions(p.ret[2], p.ret[1], rt, lambda i: z3.If(rt(i) == ra, dat(i) | D, dat(i))),
                "add_data(a,d) adds d to a's class only"))
    ops.append(("set_data", lambda ctx: [Ref(Cell(Int(A, 64), "a"), ()), Int(D, 8)],
                lambda p: frame_conditions(p.ret[2], p.ret[1], rt, lambda i: z3.If(rt(i) == ra, D, dat(i))),
                "set_data(a,d) replaces the data of a's class only"))

    def post_get(p):
        r, cell, ctx = p.ret
        has = sel(S.dp, ra, z3.BoolVal(False))
        if isinstance(r, Agg) and r.variant == "Some":
            val = ctx.force(load(ctx, r.fields[0])).e
            res = z3.And(has, val == dat(A))
        else:
            res = z3.Not(has)
        return z3.And(res, frame_conditions(ctx, cell, rt, dat))
    ops.append(("get_data", lambda ctx: [Ref(Cell(Int(A, 64), "a"), ())], post_get,
                "get_data(a) returns the data of a's class (None when it has none) and changes nothing"))
    ops.append(("insert", lambda ctx: [Int(A, 64)],
                lambda p: frame_conditions(p.ret[2], p.ret[1], rt, dat),
                "insert(a) adds a singleton when a is new and is a no-op when a is already a member"))

    def post_sets(p):
        r, cell, ctx = p.ret
        items = r.pushed if isinstance(r, Obj) and r.kind == "vec" else None
        if items is None:
            return z3.BoolVal(False)
        cs = [frame_conditions(ctx, cell, rt, dat)]
        for i in range(n):
            is_root = z3.And(S.rp[i], S.rv[i] == BV(i))
            hits = []
            for it in items:
                k, d_ = ctx.force(it.fields[0]).e, ctx.force(it.fields[1]).e
                hits.append(z3.And(k == BV(i), d_ == dat(BV(i))))
            cs.append(is_root == (z3.Or(hits) if hits else z3.BoolVal(False)))
            # no duplicates
            cnt = z3.Sum([z3.If(ctx.force(it.fields[0]).e == BV(i), 1, 0) for it in items]) if items else z3.IntVal(0)
            cs.append(cnt <= 1)
        return z3.And(cs)
    ops.append(("sets", lambda ctx: [], post_sets, "sets() lists every class exactly once with its data and changes no class"))
    for name, args, post, what in ops:
        oid = "F.%s" % name
        t0 = time.time()
        try:
            paths = explore(name, args)
        except Unsupported as e:
            out.obligation(oid, "mirsmt", "inconclusive", time.time() - t0, witness=False, note=str(e))
            out.inconc("%s: %s" % (oid, e))
            continue

        def replay(p, model, name=name):
            m = {"n": n, "op": name, "a": ev(model, A) % n, "b": ev(model, B2) % n, "d": ev(model, D)}
            for i in range(n):
                m["rp%d" % i] = int(bool(ev(model, S.rp[i])))
                m["rv%d" % i] = ev(model, S.rv[i])
                m["dp%d" % i] = int(bool(ev(model, S.dp[i])))
                m["dv%d" % i] = ev(model, S.dv[i])
            return native.scenario(out, "forest_step", m)

        def post_all(p, post=post):
            if p.kind != "return":
                return z3.BoolVal(False)
            return post(p)
        verdict(out, pr, oid, paths, post_all, pre=pre, kinds=("return", "panic", "loop-bound", "unreachable"), replay=replay,
                key="forest:%s" % name, what=what)
    out.extra["forest_queries"] = pr.n_queries
