"""C17 — strict mode surfaces every execution error; permissive mode tolerates bad jumps (Engine B).

E1  one iteration of VM::execute with an arbitrary opcode outcome: the error buffer grows by exactly the opcode's error
    unless it is a jump-target error in permissive mode; the thread is killed in every error case; execute() returns
    Err iff the buffer is non-empty.
E2  JumpI::execute / Jump::execute classification of bad targets.
E3  errors produced on these paths are located at an offset inside the code.
"""
import time

import z3

from .. import common as C
from .. import mirrun, native
from . import jumps
from .c03 import verdict, variant
from .c08 import find_execute
from mirsmt.engine import View
from mirsmt.interp import Agg, Bool, Cell, Int, Lazy, Obj, Ref, Unsupported, UNIT
from mirsmt.oblig import Prover
from mirsmt.summaries import err, ok

GAS_AT = z3.Function("min_gas_cost_of_instruction_at", z3.BitVecSort(64), z3.BitVecSort(64))
BAD_JUMP = ("InvalidOffsetForJump", "InvalidJumpTarget", "NonExistentJumpTarget", "NoConcreteJumpDestination")


def replay_kind(out, kind, jumpi):
    """Native confirmation for an error-classification model: run a program raising that kind in both modes."""
    if kind in BAD_JUMP:
        judge = lambda d: ((not d.get("permissive_ok", True)) or (d.get("strict_ok", False) and kind != "NoConcreteJumpDestination")
                           or d.get("fallthrough_dropped", False))
    else:
        judge = lambda d: d.get("permissive_ok", False) or d.get("strict_ok", False) or d.get("gas_location_wrong", False)
        if kind == "GasLimitExceeded":
            for variant_ in (0, 1):
                c0, r0 = native.scenario(out, "error_kind", {"kind": kind, "jumpi": variant_}, judge=judge)
                if c0:
                    return c0, r0
            return False, r0
        if kind != "StackUnderflowAtJump":
            kind = "StackDepthExceeded"
    c1, r1 = native.scenario(out, "error_kind", {"kind": kind, "jumpi": 1 if jumpi else 0}, judge=judge)
    if c1:
        return c1, r1
    # a rejected JUMP must also END the path (dead code behind it stays dead)
    if kind in BAD_JUMP and not jumpi:
        c2, r2 = native.scenario(out, "rejected_jump_falls_through", {"permissive": 1})
        if c2:
            return c2, r2
        r1 = {"error_kind": r1, "falls_through": r2}
    return False, r1


def pop_failure_propagates(r, ctx):
    """paths on which a stack pop failed (no jump validation happened): the result is Err carrying the pop's own error"""
    failed = [e for e in ctx.events if e[0] == "pop-failed"]
    if not failed:
        return None                      # e.g. no current thread: covered by E3
    if not (isinstance(r, Agg) and r.variant == "Err"):
        return z3.BoolVal(False)
    pl = r.fields[0].fields.get(1) if isinstance(r.fields[0], Agg) else None
    name = getattr(pl, "name", None)
    return z3.BoolVal(isinstance(name, str) and name.startswith("pop_err"))


def errors_vec(ctx, cell):
    v = View(ctx)
    e = v.get(cell, "VM", "errors")
    if isinstance(e, Lazy):
        return None
    p = e.fields.get(0)
    return p if isinstance(p, Obj) else None


def run(out, tier):
    eng = mirrun.load_engine(out)
    pr = Prover(out)
    out.functions += ["vm::VM::execute (one loop iteration + exit block)", "vm::VM::advance", "opcode::control::{Jump,JumpI}::execute",
                      "error::container::Errors::{add,add_located,is_empty}", "vm::VM::{store_error,kill_current_thread}"]
    out.bounds += ["one iteration of the VM main loop from an arbitrary valid VM state; the executed opcode is abstracted to "
                   "`Ok(())` or `Err(any located execution error)` (13 error kinds x strict/permissive)",
                   "JumpI/Jump: jump validation abstracted to Ok(valid target) | Err(any located error)"]
    out.assumptions += ["`strict succeeds => permissive returns the same layout` is outside (needs whole runs)",
                        "watchdog.poll_every() >= 1 (0 is an invalid configuration)",
                        "the order of the error buffer is not modelled (multiset)"]
    e1(out, eng, pr)
    e2(out, eng, pr)
    # E4: gas exhaustion is an execution error in BOTH modes (VM::advance records it iff gas was the reason)
    from . import c03
    c03.advance(out, eng, eng.explorer(), pr, oid="E4.gas_exhaustion_always_reported", key="gas-exhaustion-not-reported",
                replay=lambda p, m: replay_kind(out, "GasLimitExceeded", jumpi=False))
    out.extra["solver_queries"] = pr.n_queries


POLL = z3.BitVec("poll_every", 64)
IP_AFTER = z3.BitVec("ip_after_opcode", 32)


def main_loop(eng, havoc_ip=False):
    """One iteration of VM::execute (cut at the loop head) with the executed opcode abstracted to
    Ok(()) | Err(any located error); it may have asked for the thread to die and (havoc_ip) may have moved the
    instruction pointer to any offset inside the code, as JUMP does.  -> (paths, explorer)"""
    f = eng.fn(">::execute", file="src/vm/mod.rs")
    head = None
    for bb, blk in f.blocks.items():
        if blk.term and "VM::current_instruction(" in blk.term:
            head = bb
    if head is None:
        raise Unsupported("loop head of VM::execute not found")

    def poll_every(ctx, a, ty, c):
        return Int(POLL, 64)

    def should_stop(ctx, a, ty, c):
        return Bool(z3.Bool("should_stop"))

    def op_execute(ctx, a, ty, c):
        vmref = a[1]
        cell, path = vmref.cell, vmref.path
        ev_ = errors_vec(ctx, cell)
        n0 = len(ev_.pushed) if ev_ is not None else 0
        # the opcode may have asked for the thread to die
        kidx = ctx.src.field_index("VM", "current_thread_killed")
        ctx.write(cell, path + (("f", kidx, "bool"),), Bool(z3.Bool("op_killed")))
        if havoc_ip:
            q = View(ctx).get(cell, "VM", "thread_queue")
            if isinstance(q, Obj) and q.elems:
                tpath = (("f", ctx.src.field_index("VMThread", "thread"), "disassembly::ExecutionThread"),
                         ("f", ctx.src.field_index("ExecutionThread", "instruction_pointer"), "u32"))
                ctx.write(q.elems[0], tpath, Int(IP_AFTER, 32))
        k = ctx.choose(2)
        ctx.events.append(("op", "ok" if k == 0 else "err", n0))
        if k == 0:
            return ok(ty, UNIT)
        pl = Lazy("error::execution::Error", "op_err")
        located = Agg("Located", {0: Lazy("u32", "op_err_loc"), 1: pl})
        ctx.events.append(("op_err", located))
        return err(ty, located)

    def min_gas(ctx, a, ty, c):
        # the cost is a function of WHICH instruction is asked (its offset in the code): charging for another instruction
        # than the one that was executed is then visible in the gas balance (C03 O9)
        try:
            from mirsmt.containers import _op_of
            at = _op_of(ctx, a[0]).at
            at = at if z3.is_bv(at) else z3.BitVecVal(int(at), 64)
            if at.size() != 64:
                at = z3.ZeroExt(64 - at.size(), at)
            ctx.events.append(("gas_of", at))
            return Int(GAS_AT(at), 64)
        except Exception:
            return Int(z3.BitVec("gas_cost", 64), 64)

    def kill(ctx, a, ty, c):
        ctx.events.append(("kill",))
        return NotImplemented

    def advance(ctx, a, ty, c):
        ctx.events.append(("advance", len(ctx.events)))
        # the classification is over: pin down which error kind this path is about
        for e in ctx.events:
            if e[0] == "op_err":
                pl = e[1].fields[1]
                if isinstance(pl, Lazy):
                    pl = ctx.as_agg(pl)
                    e[1].fields[1] = pl
                ctx.variant_of(pl)
        return NotImplemented
    extra = [(r"^<dyn Watchdog as Watchdog>::poll_every$", poll_every), (r"^<dyn Watchdog as Watchdog>::should_stop$", should_stop),
             (r"^<dyn Opcode as Opcode>::execute$", op_execute), (r"^<dyn Opcode as Opcode>::min_gas_cost$", min_gas),
             (r"^VM::kill_current_thread$", kill), (r"^VM::advance(_\w+)?$", advance)]
    ex = eng.explorer(extra=extra, max_visits=3)

    def body(ctx):
        cell = Cell(Lazy("vm::VM", "vm"), "vm")
        ctx.vmcell = cell
        ctx.stop_at = {head: 2}
        r = ctx.run_fn(f, [Ref(cell, (), True)])
        return r, cell, ctx
    return ex.explore(body), ex


def e1(out, eng, pr):
    try:
        paths, ex = main_loop(eng)
    except Unsupported as e:
        out.obligation("E1.execute_error_arm", "mirsmt", "inconclusive", 0, witness=False, note=str(e))
        out.inconc("E1: %s" % e)
        return
    n = jumps.vm_names()
    inv = [c for c in jumps.vm_invariants(n)][:7] + [z3.UGE(POLL, 1)]
    permissive = n["permissive"]
    seen = {"err_paths": 0, "kinds": set()}

    def post(p):
        ctx = p.ctx
        cell = ctx.vmcell
        ops = [e for e in ctx.events if e[0] == "op"]
        if not ops or ops[0][1] != "err":
            return None
        located = [e for e in ctx.events if e[0] == "op_err"][0][1]
        payload = located.fields[1]
        if not isinstance(payload, Agg) or payload.variant is None:
            return z3.BoolVal(False)      # the classification must inspect the kind
        seen["err_paths"] += 1
        seen["kinds"].add(payload.variant)
        n0 = ops[0][2]
        ev_ = errors_vec(ctx, cell)
        added = ev_.pushed[n0:] if ev_ is not None else []
        # errors added by advance() (gas) come after the kill/advance events; the arm's own additions are those before advance
        own = [x for x in added if x is located]
        other = [x for x in added if x is not located]
        killed_evt = any(e[0] == "kill" for e in ctx.events)
        tolerated = payload.variant in BAD_JUMP
        conds = [z3.BoolVal(killed_evt), z3.BoolVal(len(own) <= 1)]
        if tolerated:
            conds.append(z3.BoolVal(len(own) == 1) == z3.Not(permissive))
        else:
            conds.append(z3.BoolVal(len(own) == 1))
        # anything else added in this iteration is advance()'s gas error
        for x in other:
            ok_gas = isinstance(x, Agg) and isinstance(x.fields.get(1), Agg) and x.fields[1].variant == "GasLimitExceeded"
            conds.append(z3.BoolVal(ok_gas))
        return z3.And(conds)

    def replay(p, model):
        located = [e for e in p.ctx.events if e[0] == "op_err"][0][1]
        return replay_kind(out, located.fields[1].variant, jumpi=False)
    res = verdict(out, pr, "E1.execute_error_arm", paths, post, pre=inv, kinds=("cut", "return"),
                  what="an opcode error is added to the error buffer exactly once, except jump-target errors in permissive mode; the thread is killed either way",
                  replay=replay, key="vm-execute-error-classification")
    if len(seen["kinds"]) < 13 and not out.violations:
        out.inconc("E1: only %d of 13 error kinds reached the classification (%s)" % (len(seen["kinds"]), sorted(seen["kinds"])))
    out.extra["E1_error_kinds"] = sorted(seen["kinds"])

    # exit block: execute() returns Err iff the buffer is non-empty
    base_len = z3.BitVec("vm.6.0.len", 64)

    def post_exit(p):
        if p.kind != "return":
            return None
        r, cell, ctx = p.ret
        if any(e[0] == "op" for e in ctx.events):
            return None
        if not z3.is_true(z3.simplify(z3.Bool("vm.2.empty@0"))) and not any(str(c) == "vm.2.empty@0" for c in p.pc):
            return None
        return z3.BoolVal(variant(r) == "Err") == (base_len != 0)
    verdict(out, pr, "E1.execute_returns_err_iff_errors", paths, post_exit, kinds=("return",),
            what="when no thread is left, execute() returns Err exactly when the error buffer is non-empty")

    # E3: errors that VM::execute itself creates are located inside the code
    code_len = n["code_len"]

    def post_loc(p):
        if p.kind != "return":
            return None
        r, cell, ctx = p.ret
        if variant(r) != "Err":
            return None
        e = r.fields[0]
        # Errors<Located<..>> built by From<Located<..>>: a single located error
        located = None
        if isinstance(e, Agg) and isinstance(e.fields.get(0), Obj) and e.fields[0].kind == "vec" and len(e.fields[0].pushed) == 1 \
                and z3.is_bv_value(z3.simplify(e.fields[0].base_len)) and z3.simplify(e.fields[0].base_len).as_long() == 0:
            located = e.fields[0].pushed[0]
        if located is None:
            return None          # the cloned buffer (exit block): covered by E1
        loc = ctx.force(located.fields[0])
        if any(x is located for (k, *rest) in ctx.events if k == "op_err" for x in rest):
            return None
        return z3.ULT(z3.ZeroExt(32, loc.e), code_len)
    verdict(out, pr, "E3.fatal_errors_located_in_code", paths, post_loc, pre=inv, kinds=("return",),
            what="fatal errors forwarded by VM::execute (watchdog stop, bookkeeping failures) are located at an offset inside the code")


def e2(out, eng, pr):
    f = find_execute(eng, "src/opcode/control.rs", "JumpI")
    if f is None:
        out.inconc("E2: JumpI::execute not found")
        return
    ex = eng.explorer(extra=jumps.summaries(None))

    def body(ctx):
        cell = Cell(Lazy("vm::VM", "vm"), "vm")
        r = ctx.run_fn(f, [Ref(Cell(Agg("opcode::control::JumpI"), "self"), ()), Ref(cell, (), True)])
        jumps.resolve_errors(ctx, r)
        return r, cell, ctx
    try:
        paths = ex.explore(body)
    except Unsupported as e:
        out.obligation("E2.jumpi_bad_target", "mirsmt", "inconclusive", 0, witness=False, note=str(e))
        out.inconc("E2: %s" % e)
        return
    n = jumps.vm_names()
    inv = jumps.vm_invariants(n)
    seen = set()

    def post(p):
        r, cell, ctx = p.ret
        if not any(e[0] == "validate" for e in ctx.events):
            # an operand could not be popped: that error, unchanged, is the instruction's result
            return pop_failure_propagates(r, ctx)
        if any(e[0] == "valid-target" for e in ctx.events):
            return None
        # validation failed with payload vj_err
        stores = [e for e in ctx.events if e[0] == "store_error"]
        kind = None
        for e in stores:
            pl = e[1].fields.get(1) if isinstance(e[1], Agg) else None
            if isinstance(pl, Agg):
                kind = pl.variant
        if variant(r) == "Err":
            pl = r.fields[0].fields.get(1)
            kind = pl.variant if isinstance(pl, Agg) else None
            # only non-jump errors may propagate as Err
            return z3.BoolVal(kind is not None and kind not in BAD_JUMP and not stores)
        # Ok: a bad jump target on the would-be branch; the fall-through thread continues
        killed = View(ctx).get(cell, "VM", "current_thread_killed").e
        if kind is None:
            # nothing stored: must be permissive
            return z3.And(n["permissive"], killed == n["killed"])
        seen.add(kind)
        return z3.And(z3.BoolVal(kind in BAD_JUMP), z3.BoolVal(len(stores) == 1), z3.Not(n["permissive"]), killed == n["killed"])

    def replay(p, model):
        kind = None
        for x in [p.ret[0]] + [e[1] for e in p.ctx.events if e[0] == "store_error"]:
            pl = None
            if isinstance(x, Agg) and x.variant == "Err":
                pl = x.fields[0].fields.get(1)
            elif isinstance(x, Agg):
                pl = x.fields.get(1)
            if isinstance(pl, Agg) and pl.variant:
                kind = pl.variant
        if any(e[0] == "pop-failed" for e in p.ctx.events) and not any(e[0] == "validate" for e in p.ctx.events):
            return replay_kind(out, "StackUnderflowAtJump", jumpi=True)
        return replay_kind(out, kind or "NonExistentJumpTarget", jumpi=True)
    verdict(out, pr, "E2.jumpi_bad_target", paths, post, pre=inv, replay=replay, key="permissive-jumpi-bad-target-is-reported",
            what="JUMPI with an invalid / non-existent / unresolvable target: strict mode records the error, permissive mode records nothing, "
                 "the fall-through thread continues; other errors propagate")
    # Jump
    f = find_execute(eng, "src/opcode/control.rs", "Jump")
    ex = eng.explorer(extra=jumps.summaries(None))

    def body_j(ctx):
        cell = Cell(Lazy("vm::VM", "vm"), "vm")
        r = ctx.run_fn(f, [Ref(Cell(Agg("opcode::control::Jump"), "self"), ()), Ref(cell, (), True)])
        jumps.resolve_errors(ctx, r)
        return r, cell, ctx
    try:
        paths = ex.explore(body_j)
    except Unsupported as e:
        out.obligation("E2.jump_bad_target", "mirsmt", "inconclusive", 0, witness=False, note=str(e))
        out.inconc("E2.jump: %s" % e)
        return

    def post_j(p):
        r, cell, ctx = p.ret
        if not any(e[0] == "validate" for e in ctx.events):
            return pop_failure_propagates(r, ctx)
        if any(e[0] == "valid-target" for e in ctx.events):
            return None
        if variant(r) == "Err":
            pl = r.fields[0].fields.get(1)
            # the error is handed to VM::execute, whose arm (E1) applies the strict/permissive rule
            return z3.BoolVal(isinstance(pl, Agg) and pl.variant != "NoConcreteJumpDestination")
        killed = View(ctx).get(cell, "VM", "current_thread_killed").e
        return z3.And(killed, z3.BoolVal(not any(e[0] == "store_error" for e in ctx.events)))
    def replay_j(p, model):
        if any(e[0] == "pop-failed" for e in p.ctx.events) and not any(e[0] == "validate" for e in p.ctx.events):
            return replay_kind(out, "StackUnderflowAtJump", jumpi=False)
        return replay_kind(out, "NonExistentJumpTarget", jumpi=False)
    verdict(out, pr, "E2.jump_bad_target", paths, post_j, pre=inv, replay=replay_j, key="jump-error-misclassified",
            what="JUMP with an unresolvable target ends the path silently; other validation errors and stack errors are returned unchanged to VM::execute")
