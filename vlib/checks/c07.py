"""C07 — every explored path computes what a concrete EVM computes: OPERAND-WIRING KERNEL ONLY (Engine B).

The statement is about end states of whole paths, which no engine here can execute.  What is decided is the local
half that links the three things decided elsewhere (C09: meaning of each node kind on constants; C10: PUSH decoding):
for each simple ALU opcode, `execute` pops exactly its operands, builds ONE node of the variant that denotes the
opcode with the operands in their EVM roles (mu_s[0] = top of stack), pushes exactly that node, and touches nothing
else.  ADDMOD / MULMOD / BYTE build composite trees and are outside (listed in the evidence)."""
import re
import time

import z3

from .. import common as C
from .. import mirrun, native
from .c08 import find_execute
from mirsmt.interp import Agg, Cell, Int, Lazy, Obj, Ref, Unsupported, UNIT
from mirsmt.summaries import err, ok

# opcode struct -> (file, node variant, {field: operand index in pop order}), Yellow Paper operand order
A, L = "src/opcode/arithmetic.rs", "src/opcode/logic.rs"
TABLE = {
    "Add": (A, "Add", {"left": 0, "right": 1}), "Mul": (A, "Multiply", {"left": 0, "right": 1}),
    "Sub": (A, "Subtract", {"left": 0, "right": 1}), "Div": (A, "Divide", {"dividend": 0, "divisor": 1}),
    "SDiv": (A, "SignedDivide", {"dividend": 0, "divisor": 1}), "Mod": (A, "Modulo", {"dividend": 0, "divisor": 1}),
    "SMod": (A, "SignedModulo", {"dividend": 0, "divisor": 1}), "Exp": (A, "Exp", {"value": 0, "exponent": 1}),
    # SIGNEXTEND(b, x): mu_s[0] = b selects the size, mu_s[1] = x is the value that is extended
    "SignExtend": (A, "SignExtend", {"size": 0, "value": 1}),
    "Lt": (L, "LessThan", {"left": 0, "right": 1}), "Gt": (L, "GreaterThan", {"left": 0, "right": 1}),
    "SLt": (L, "SignedLessThan", {"left": 0, "right": 1}), "SGt": (L, "SignedGreaterThan", {"left": 0, "right": 1}),
    "Eq": (L, "Equals", {"left": 0, "right": 1}), "IsZero": (L, "IsZero", {"number": 0}),
    "And": (L, "And", {"left": 0, "right": 1}), "Or": (L, "Or", {"left": 0, "right": 1}), "Xor": (L, "Xor", {"left": 0, "right": 1}),
    "Not": (L, "Not", {"value": 0}),
    # SHL/SHR/SAR(shift, value): mu_s[0] = shift
    "Shl": (L, "LeftShift", {"shift": 0, "value": 1}), "Shr": (L, "RightShift", {"shift": 0, "value": 1}),
    "Sar": (L, "ArithmeticRightShift", {"shift": 0, "value": 1}),
}
COMMUTATIVE = {"Add", "Mul", "Eq", "And", "Or", "Xor"}
ENUM = "vm::value::SymbolicValueData"


def summaries():
    def pop(ctx, a, ty, c):
        n = sum(1 for e in ctx.events if e[0] == "pop")
        if ctx.choose(2) == 0:
            v = Obj("operand", "RuntimeBoxedVal", index=n)
            ctx.events.append(("pop", n))
            return ok(ty, v)
        ctx.events.append(("pop-failed", n))
        return err(ty, Agg("Located", {0: Lazy("u32", "e_loc%d" % n), 1: Lazy("error::execution::Error", "e%d" % n)}))

    def push(ctx, a, ty, c):
        ctx.events.append(("push", a[1]))
        if ctx.choose(2) == 0:
            return ok(ty, UNIT)
        return err(ty, Agg("Located", {0: Lazy("u32", "p_loc"), 1: Lazy("error::execution::Error", "p_err")}))

    def build(ctx, a, ty, c):
        return Ref(Cell(Obj("builder", "ValueBuilder"), "builder"), ())

    def symbolic_exec(ctx, a, ty, c):
        node = Obj("node", "RuntimeBoxedVal", data=a[2], index=sum(1 for e in ctx.events if e[0] == "node"))
        ctx.events.append(("node", node))
        return node

    def clone(ctx, a, ty, c):
        from mirsmt.summaries import load
        return load(ctx, a[0])
    return [(r"^LocatedStackHandle::<'_>::pop$", pop), (r"^LocatedStackHandle::<'_>::push$", push), (r"^VM::build$", build),
            (r"^ValueBuilder::symbolic_exec$", symbolic_exec), (r"^<Arc<SymbolicValue<\(\)>> as Clone>::clone$", clone)]


def run(out, tier):
    eng = mirrun.load_engine(out)
    out.functions += ["opcode::{arithmetic,logic}::<22 simple ALU opcodes>::execute", "vm::state::stack::Stack::{push,pop,read,duplicate,swap}",
                      "opcode::memory::{DupN,SwapN,MStore,MStore8,MLoad,SStore,SLoad}::execute"]
    out.bounds += ["one execution of each opcode's `execute` from an arbitrary VM state; stack traffic abstracted to "
                   "pop -> k-th operand | error, push -> ok | error; all paths"]
    out.assumptions += ["ONLY the operand-wiring kernel of C07 is decided: the meaning of each node kind on constants is C09, PUSH decoding is C10; "
                        "end states of whole paths, memory / storage histories and branch isolation are NOT decided",
                        "ADDMOD, MULMOD and BYTE build composite trees (Modulo(Add(..)) etc.) and are outside; note that Modulo(Add(a,b),n) "
                        "wraps the sum at 2^256, which the EVM's ADDMOD does not",
                        "the variant -> opcode and field -> operand-role table in c07.py is written from the Yellow Paper"]
    outside = ["AddMod", "MulMod", "Byte"]
    out.extra["outside_the_kernel"] = outside
    for op, (file, variant, roles) in TABLE.items():
        oid = "W.%s" % op
        f = find_execute(eng, file, op)
        if f is None:
            out.inconc("%s: execute not found" % oid)
            continue
        ex = eng.explorer(extra=summaries())

        def body(ctx, f=f, op=op):
            from . import jumps
            ctx.assume(z3.And(jumps.vm_invariants(jumps.vm_names())[:7]))      # a VM between instructions
            cell = Cell(Lazy("vm::VM", "vm"), "vm")
            r = ctx.run_fn(f, [Ref(Cell(Agg("opcode::%s" % op), "self"), ()), Ref(cell, (), True)])
            return r, ctx
        t0 = time.time()
        try:
            paths = ex.explore(body)
        except Unsupported as e:
            out.obligation(oid, "mirsmt", "inconclusive", 0, witness=False, note=str(e))
            out.inconc("%s: %s" % (oid, e))
            continue
        bad = None
        n_ok = 0
        for p in paths:
            if p.kind != "return":
                bad = "path ends with %s (%s)" % (p.kind, p.msg[:60])
                continue
            r, ctx = p.ret
            pops = [e for e in ctx.events if e[0] == "pop"]
            nodes = [e[1] for e in ctx.events if e[0] == "node"]
            pushes = [e[1] for e in ctx.events if e[0] == "push"]
            if not (isinstance(r, Agg) and r.variant == "Ok"):
                # an error return must not have pushed a result
                continue
            n_ok += 1
            if len(pops) != len(roles):
                bad = "pops %d operands, the opcode takes %d" % (len(pops), len(roles))
                continue
            if len(nodes) != 1 or len(pushes) != 1 or pushes[0] is not nodes[0]:
                bad = "does not push exactly the one node it builds"
                continue
            d = nodes[0].data
            if not (isinstance(d, Agg) and d.variant == variant):
                bad = "builds %s instead of %s" % (getattr(d, "variant", d), variant)
                continue
            got = {}
            for fname, want_idx in roles.items():
                fi = eng.src.field_index(ENUM, fname, variant)
                v = d.fields.get(fi)
                got[fname] = v.index if isinstance(v, Obj) and v.kind == "operand" else None
            if got != roles:
                swapped = {k: (1 - v if v in (0, 1) else v) for k, v in roles.items()}
                if op in COMMUTATIVE and got == swapped:
                    continue
                bad = "operands wired as %s, the EVM roles are %s (index = position from the top of the stack)" % (got, roles)
        dt = time.time() - t0
        if bad is None and n_ok:
            out.obligation(oid, "mirsmt", "holds", dt, witness=True, paths=len(paths))
        elif bad is None:
            out.obligation(oid, "mirsmt", "vacuous", dt, witness=False)
            out.inconc("%s: no successful path" % oid)
        else:
            confirmed, rep = native.scenario(out, "opcode_wiring", {"name": op})
            if confirmed:
                out.obligation(oid, "mirsmt", "violated", dt, witness=True, note=bad, replay=rep)
                out.violation(C.Violation(key="opcode-wiring:%s" % op, what="%s: %s" % (op.upper(), bad),
                                          replay={"engine": "mirsmt", "obligation": oid, "native": rep}))
            else:
                out.obligation(oid, "mirsmt", "cex-not-reproduced", dt, witness=False, note=bad, replay=rep)
                out.inconc("%s: %s (not reproduced natively: %s)" % (oid, bad, rep))
    stack_kernel(out, eng, tier)
    dup_swap_and_memory(out, eng)
    push_like(out, eng)
    state_fork(out, eng)
    composite(out, eng)
    generational_stores(out, eng)


# =============================================================================================================
# W2: the stack itself (push / pop / read / duplicate / swap) against a list model, and DUPn / SWAPn indexing
# W3: which popped operand the memory / storage opcodes hand to which parameter
# =============================================================================================================
def stack_summaries():
    """Vec<RuntimeBoxedVal> as a Python list of opaque, pairwise distinct elements."""
    from mirsmt.summaries import load, deref, some, none

    def stk(ctx, r):
        v = r
        for _ in range(4):
            if isinstance(v, Obj) and v.kind == "stk":
                return v
            if isinstance(v, (Ref, Lazy)):
                v = load(ctx, v)
            else:
                break
        return None

    def vlen(ctx, a, ty, c):
        s = stk(ctx, a[0])
        return Int(len(s.items), 64) if s is not None else NotImplemented

    def is_empty(ctx, a, ty, c):
        s = stk(ctx, a[0])
        from mirsmt.interp import Bool
        return Bool(len(s.items) == 0) if s is not None else NotImplemented

    def push(ctx, a, ty, c):
        s = stk(ctx, a[0])
        if s is None:
            return NotImplemented
        s.items.append(a[1])
        return UNIT

    def pop(ctx, a, ty, c):
        s = stk(ctx, a[0])
        if s is None:
            return NotImplemented
        return some(ty, s.items.pop()) if s.items else none(ty)

    def index(ctx, a, ty, c):
        s = stk(ctx, a[0])
        if s is None:
            return NotImplemented
        i = ctx.force(a[1]).e
        n = len(s.items)
        k = ctx.branch([i == z3.BitVecVal(j, 64) for j in range(n)] + [z3.UGE(i, z3.BitVecVal(n, 64))])
        if k == n:
            from mirsmt.interp import PathEnd
            raise PathEnd("panic", "index out of bounds")
        cell = Cell(s.items[k], "stk[%d]" % k)
        ctx.events.append(("indexed", k))
        return Ref(cell, ())

    def swap(ctx, a, ty, c):
        s = stk(ctx, a[0])
        if s is None:
            return NotImplemented
        n = len(s.items)
        idx = []
        for x in (a[1], a[2]):
            i = ctx.force(x).e
            k = ctx.branch([i == z3.BitVecVal(j, 64) for j in range(n)] + [z3.UGE(i, z3.BitVecVal(n, 64))])
            if k == n:
                from mirsmt.interp import PathEnd
                raise PathEnd("panic", "swap index out of bounds")
            idx.append(k)
        s.items[idx[0]], s.items[idx[1]] = s.items[idx[1]], s.items[idx[0]]
        return UNIT

    def clone(ctx, a, ty, c):
        v = load(ctx, a[0])
        return v if isinstance(v, Obj) and v.kind == "operand" else NotImplemented

    def extend_from_within(ctx, a, ty, c):
        s = stk(ctx, a[0])
        if s is None:
            return NotImplemented
        r = a[1]
        n = len(s.items)
        lo_hi = []
        for x in (r.fields[0], r.fields[1]):
            i = ctx.force(x).e
            k = ctx.branch([i == z3.BitVecVal(j, 64) for j in range(n + 1)] + [z3.UGT(i, z3.BitVecVal(n, 64))])
            if k == n + 1:
                from mirsmt.interp import PathEnd
                raise PathEnd("panic", "range out of bounds")
            lo_hi.append(k)
        lo, hi = lo_hi
        hi = hi + 1 if "RangeInclusive" in c else hi
        if hi > n:
            from mirsmt.interp import PathEnd
            raise PathEnd("panic", "range end out of bounds")
        s.items.extend(s.items[lo:hi])
        return UNIT

    def ident(ctx, a, ty, c):
        return a[0] if stk(ctx, a[0]) is not None else NotImplemented
    return [(r"^Vec::<Arc<SymbolicValue<\(\)>>>::len$", vlen), (r"^Vec::<Arc<SymbolicValue<\(\)>>>::is_empty$", is_empty),
            (r"^Vec::<Arc<SymbolicValue<\(\)>>>::push$", push), (r"^Vec::<Arc<SymbolicValue<\(\)>>>::pop$", pop),
            (r"^<Vec<Arc<SymbolicValue<\(\)>>> as (Index|IndexMut)<usize>>::(index|index_mut)$", index),
            (r"^core::slice::<impl \[Arc<SymbolicValue<\(\)>>\]>::swap$", swap),
            (r"^Vec::<Arc<SymbolicValue<\(\)>>>::extend_from_within::<.*>$", extend_from_within),
            (r"^<Vec<Arc<SymbolicValue<\(\)>>> as (Deref|DerefMut)>::(deref|deref_mut)$", ident),
            (r"^<Arc<SymbolicValue<\(\)>> as Clone>::clone$", clone)]


def stack_kernel(out, eng, tier):
    file = "src/vm/state/stack.rs"
    depths = (0, 1, 2, 3, 17) if tier == "quick" else (0, 1, 2, 3, 4, 16, 17, 18)
    FRAME = z3.BitVec("frame", 32)
    fns = {n: eng.fn(">::" + n, file=file + ":2") if False else None for n in ()}
    impl = [f for n, f in eng.fns.items() if "<impl at %s" % file in n]

    def get(name):
        c = [f for f in impl if f.name.endswith(">::" + name) and "Stack" in (f.args[0][1] if f.args else "") and "Located" not in f.args[0][1]]
        if len(c) != 1:
            raise Unsupported("Stack::%s: %d candidates" % (name, len(c)))
        return c[0]
    t0 = time.time()
    bad = None
    n_paths = 0
    LIMIT = 1024          # the EVM's stack limit (Yellow Paper); the crate's constant is whatever the MIR compares with
    try:
        # ---- at the limit: growing the stack is refused exactly when it already holds 1024 items -----------------------
        for op in ("push", "duplicate"):
            f = get(op)
            for depth in (LIMIT - 1, LIMIT):
                ex = eng.explorer(extra=stack_summaries())

                def body_l(ctx, f=f, op=op, depth=depth):
                    items = [Obj("operand", "RuntimeBoxedVal", index=i) for i in range(depth)]
                    s = Obj("stk", "Vec<RuntimeBoxedVal>", items=list(items))
                    cell = Cell(Agg("vm::state::stack::Stack", {0: s}), "stack")
                    args = [Ref(cell, (), True)]
                    args.append(Obj("operand", "RuntimeBoxedVal", index=99) if op == "push" else Int(z3.BitVecVal(0, 32), 32))
                    r = ctx.run_fn(f, args)
                    return r, s, ctx
                for p in ex.explore(body_l):
                    n_paths += 1
                    if p.kind != "return":
                        bad = "Stack::%s at depth %d: path ends with %s (%s)" % (op, depth, p.kind, p.msg[:50])
                        continue
                    r, s, ctx = p.ret
                    okr = isinstance(r, Agg) and r.variant == "Ok"
                    if okr != (depth < LIMIT):
                        bad = "Stack::%s with %d items on the stack returns %s (the stack holds at most %d items)" % (op, depth, "Ok" if okr else "Err", LIMIT)
                    elif len(s.items) != (depth + 1 if okr else depth):
                        bad = "Stack::%s with %d items leaves %d items" % (op, depth, len(s.items))
        for op in ("push", "pop", "read", "duplicate", "swap"):
            f = get(op)
            for depth in depths:
                ex = eng.explorer(extra=stack_summaries())

                def body(ctx, f=f, op=op, depth=depth):
                    items = [Obj("operand", "RuntimeBoxedVal", index=i) for i in range(depth)]
                    s = Obj("stk", "Vec<RuntimeBoxedVal>", items=list(items))
                    cell = Cell(Agg("vm::state::stack::Stack", {0: s}), "stack")
                    args = [Ref(cell, (), True)]
                    if op == "push":
                        args.append(Obj("operand", "RuntimeBoxedVal", index=99))
                    elif op != "pop":
                        args.append(Int(FRAME, 32))
                    r = ctx.run_fn(f, args)
                    return r, s, items, ctx
                for p in ex.explore(body):
                    n_paths += 1
                    if p.kind != "return":
                        bad = "Stack::%s at depth %d: path ends with %s (%s)" % (op, depth, p.kind, p.msg[:50])
                        continue
                    r, s, items, ctx = p.ret
                    okr = isinstance(r, Agg) and r.variant == "Ok"
                    fr = None
                    if op not in ("push", "pop"):
                        sol = z3.Solver()
                        for c_ in p.pc:
                            sol.add(c_)
                        if sol.check() != z3.sat:
                            continue
                        fr = sol.model().eval(FRAME, model_completion=True).as_long()
                        # the path must cover exactly one frame value when it succeeds
                    want_ok = {"push": True, "pop": depth > 0}.get(op, fr is not None and fr < depth)
                    if okr != want_ok:
                        bad = "Stack::%s at depth %d (frame %s): returns %s" % (op, depth, fr, "Ok" if okr else "Err")
                        continue
                    ids = [x.index for x in s.items]
                    base = list(range(depth))
                    if not okr:
                        exp = base
                    elif op == "push":
                        exp = base + [99]
                    elif op == "pop":
                        exp = base[:-1]
                        got = r.fields[0]
                        if got.index != depth - 1:
                            bad = "Stack::pop returns element %d of %d" % (got.index, depth)
                    elif op == "read":
                        exp = base
                        from mirsmt.summaries import load
                        got = load(ctx, r.fields[0])
                        if got.index != depth - 1 - fr:
                            bad = "Stack::read(%d) at depth %d returns element %d" % (fr, depth, got.index)
                    elif op == "duplicate":
                        exp = base + [depth - 1 - fr]
                    else:
                        exp = list(base)
                        exp[depth - 1], exp[depth - 1 - fr] = exp[depth - 1 - fr], exp[depth - 1]
                    if ids != exp:
                        bad = "Stack::%s(frame %s) at depth %d leaves %s, expected %s (bottom..top)" % (op, fr, depth, ids, exp)
    except Unsupported as e:
        out.obligation("W2.stack_operations", "mirsmt", "inconclusive", 0, witness=False, note=str(e))
        out.inconc("W2: %s" % e)
        return
    dt = time.time() - t0
    if bad is None:
        out.obligation("W2.stack_operations", "mirsmt", "holds", dt, witness=n_paths > 0, paths=n_paths, depths=list(depths),
                       note="push / pop / read / duplicate / swap agree with a list model for every frame index at these depths")
    else:
        confirmed, rep = native.scenario(out, "stack_ops", {})
        if confirmed:
            out.obligation("W2.stack_operations", "mirsmt", "violated", dt, witness=True, note=bad, replay=rep)
            out.violation(C.Violation(key="stack-operation-differs-from-model", what="W2: " + bad, replay={"engine": "mirsmt", "native": rep}))
        else:
            out.obligation("W2.stack_operations", "mirsmt", "cex-not-reproduced", dt, witness=False, note=bad, replay=rep)
            out.inconc("W2: %s (not reproduced natively: %s)" % (bad, str(rep)[:200]))


def dup_swap_and_memory(out, eng):
    """DUPn duplicates the n-th item from the top (frame n-1), SWAPn exchanges the top with the (n+1)-th (frame n);
    MSTORE/MSTORE8/SSTORE hand (top, second) to (offset|key, value); MLOAD/SLOAD use the top as offset|key and push
    what the load returns; POP removes one item."""
    M = "src/opcode/memory.rs"
    ITEM = z3.BitVec("self.0", 8)

    def handle_op(name):
        def f(ctx, a, ty, c):
            ctx.events.append((name, ctx.force(a[1]).e, list(ctx.pc)))
            from mirsmt.summaries import ok
            return ok(ty, UNIT)
        return f

    def capture(name, n_args):
        def f(ctx, a, ty, c):
            ctx.events.append((name,) + tuple(a[1:1 + n_args]))
            return Obj("loaded", "RuntimeBoxedVal", by=name) if name.endswith("load") else UNIT
        return f

    def state(ctx, a, ty, c):
        from mirsmt.summaries import ok
        return ok(ty, Ref(Cell(Obj("vmstate", "VMState"), "state"), (), True))

    def accessor(ctx, a, ty, c):
        return Ref(Cell(Obj("part", "?"), "part"), (), True)
    extra = summaries() + [(r"^LocatedStackHandle::<'_>::dup$", handle_op("dup")), (r"^LocatedStackHandle::<'_>::swap$", handle_op("swap")),
                           (r"^Memory::store$", capture("mstore", 2)), (r"^Memory::store_8$", capture("mstore8", 2)),
                           (r"^Memory::load$", capture("mload", 1)), (r"^Storage::store$", capture("sstore", 2)), (r"^Storage::load$", capture("sload", 1)),
                           (r"^VM::state$", state), (r"^VMState::(memory_mut|storage_mut|memory|storage)$", accessor)]
    cases = [("DupN", "dup", lambda n: z3.ZeroExt(24, n) - 1), ("SwapN", "swap", lambda n: z3.ZeroExt(24, n))]
    for ty_, ev_name, want in cases:
        oid = "W3.%s_frame" % ty_
        f = find_execute(eng, M, ty_)
        ex = eng.explorer(extra=extra)

        def body(ctx, f=f, ty_=ty_):
            from . import jumps
            ctx.assume(z3.And(jumps.vm_invariants(jumps.vm_names())[:7]))
            ctx.assume(z3.And(z3.UGE(ITEM, 1), z3.ULE(ITEM, 16)))
            me = Cell(Lazy("opcode::memory::%s" % ty_, "self"), "self")
            r = ctx.run_fn(f, [Ref(me, ()), Ref(Cell(Lazy("vm::VM", "vm"), "vm"), (), True)])
            return r, ctx
        try:
            paths = ex.explore(body)
        except Unsupported as e:
            out.obligation(oid, "mirsmt", "inconclusive", 0, witness=False, note=str(e))
            out.inconc("%s: %s" % (oid, e))
            continue
        bad, seen = None, 0
        for p in paths:
            for e in p.ctx.events:
                if e[0] == ev_name:
                    seen += 1
                    s = z3.Solver()
                    for c_ in e[2]:
                        s.add(c_)
                    s.add(e[1] != want(ITEM))
                    if s.check() == z3.sat:
                        bad = "%s passes frame %s for n = %s" % (ty_, s.model().eval(e[1]), s.model().eval(ITEM))
        _report(out, oid, bad, seen, "stack_ops", "%s uses the EVM's stack position for every n in 1..=16" % ty_, "dup-swap-frame:%s" % ty_)
    # memory / storage wiring
    table = {"MStore": ("mstore", [0, 1]), "MStore8": ("mstore8", [0, 1]), "SStore": ("sstore", [0, 1]), "MLoad": ("mload", [0]), "SLoad": ("sload", [0])}
    for ty_, (ev_name, want) in table.items():
        oid = "W3.%s_operands" % ty_
        f = find_execute(eng, M, ty_)
        ex = eng.explorer(extra=extra)

        def body(ctx, f=f, ty_=ty_):
            from . import jumps
            ctx.assume(z3.And(jumps.vm_invariants(jumps.vm_names())[:7]))
            r = ctx.run_fn(f, [Ref(Cell(Agg("opcode::memory::%s" % ty_), "self"), ()), Ref(Cell(Lazy("vm::VM", "vm"), "vm"), (), True)])
            return r, ctx
        try:
            paths = ex.explore(body)
        except Unsupported as e:
            out.obligation(oid, "mirsmt", "inconclusive", 0, witness=False, note=str(e))
            out.inconc("%s: %s" % (oid, e))
            continue
        bad, seen = None, 0
        for p in paths:
            if p.kind != "return" or not (isinstance(p.ret[0], Agg) and p.ret[0].variant == "Ok"):
                continue
            evs = [e for e in p.ctx.events if e[0] == ev_name]
            pops = [e for e in p.ctx.events if e[0] == "pop"]
            pushes = [e[1] for e in p.ctx.events if e[0] == "push"]
            if len(evs) != 1 or len(pops) != len(want):
                bad = "%s: %d %s calls, %d pops" % (ty_, len(evs), ev_name, len(pops))
                continue
            seen += 1
            from mirsmt.summaries import load
            got = []
            for x in evs[0][1:]:
                v = load(p.ctx, x) if isinstance(x, Ref) else x
                got.append(v.index if isinstance(v, Obj) and v.kind == "operand" else None)
            if got != want:
                bad = "%s hands operands %s to (%s), the EVM order is %s" % (ty_, got, "offset|key, value", want)
            if ev_name.endswith("load") and not (len(pushes) == 1 and isinstance(pushes[0], Obj) and pushes[0].kind == "loaded"):
                bad = "%s does not push what the load returned" % ty_
        _report(out, oid, bad, seen, "mem_storage_wiring", "%s hands the top of the stack to offset/key and the second item to value" % ty_,
                "memory-storage-wiring:%s" % ty_)


def _report(out, oid, bad, seen, scenario, what, key):
    if bad is None and seen:
        out.obligation(oid, "mirsmt", "holds", 0, witness=True, paths=seen, note=what)
    elif bad is None:
        out.obligation(oid, "mirsmt", "vacuous", 0, witness=False)
        out.inconc("%s: nothing observed" % oid)
    else:
        confirmed, rep = native.scenario(out, scenario, {})
        if confirmed:
            out.obligation(oid, "mirsmt", "violated", 0, witness=True, note=bad, replay=rep)
            out.violation(C.Violation(key=key, what="%s: %s" % (oid, bad), replay={"engine": "mirsmt", "native": rep}))
        else:
            out.obligation(oid, "mirsmt", "cex-not-reproduced", 0, witness=False, note=bad, replay=rep)
            out.inconc("%s: %s (not reproduced natively: %s)" % (oid, bad, str(rep)[:200]))


# =============================================================================================================
# W4: what the push-like instructions put on the stack (PUSH0 = 0, PUSHn = its immediate, PC = its own offset)
# W5: VMState::fork keeps every component of the state (writes made before a branch are seen on both sides)
# =============================================================================================================
def push_like(out, eng):
    from . import jumps
    M, CT = "src/opcode/memory.rs", "src/opcode/control.rs"
    IPV = jumps.vm_names()["ip"]

    def builder_known(ctx, a, ty, c):
        ctx.events.append(("built-known", ctx.force(a[1]).e if not isinstance(a[1], Obj) else a[1], a[2], a[3]))
        return Obj("node", "RuntimeBoxedVal", what="known")

    def builder_symbolic(ctx, a, ty, c):
        ctx.events.append(("built-symbolic", a[1], a[2], a[3]))
        return Obj("node", "RuntimeBoxedVal", what="symbolic")

    def bytes_as_word(ctx, a, ty, c):
        return Agg("KnownWord", {0: Int(z3.BitVec("push_immediate_be", 256), 256)})
    extra = summaries() + [(r"^ValueBuilder::known$", builder_known), (r"^ValueBuilder::symbolic$", builder_symbolic),
                           (r"^PushN::bytes_as_word$", bytes_as_word)]
    cases = [("Push0", M, "zero"), ("PushN", M, "immediate"), ("PC", CT, "ip")]
    for ty_, file, want in cases:
        oid = "W4.%s_pushes_%s" % (ty_, want)
        f = find_execute(eng, file, ty_)
        if f is None:
            out.inconc("%s: execute not found" % oid)
            continue
        ex = eng.explorer(extra=extra)

        def body(ctx, f=f, ty_=ty_):
            ctx.assume(z3.And(jumps.vm_invariants(jumps.vm_names())[:7]))
            me = Cell(Lazy("opcode::%s" % ty_, "self"), "self")
            r = ctx.run_fn(f, [Ref(me, ()), Ref(Cell(Lazy("vm::VM", "vm"), "vm"), (), True)])
            return r, ctx
        try:
            paths = ex.explore(body)
        except Unsupported as e:
            out.obligation(oid, "mirsmt", "inconclusive", 0, witness=False, note=str(e))
            out.inconc("%s: %s" % (oid, e))
            continue
        bad, seen = None, 0
        for p in paths:
            if p.kind != "return" or not (isinstance(p.ret[0], Agg) and p.ret[0].variant == "Ok"):
                continue
            ctx = p.ctx
            built = [e for e in ctx.events if e[0].startswith("built")]
            pushes = [e[1] for e in ctx.events if e[0] == "push"]
            if len(built) != 1 or len(pushes) != 1 or not (isinstance(pushes[0], Obj) and pushes[0].kind == "node"):
                bad = "%s does not push exactly one freshly built value" % ty_
                continue
            seen += 1
            kind, a1, a2, a3 = built[0]
            # the 256-bit constant that was built
            val = None
            if kind == "built-known":
                w = a2
                val = ctx.force(w.fields[0]).e if isinstance(w, Agg) and 0 in w.fields else None
            else:
                d = a2
                if isinstance(d, Agg) and d.variant == "KnownData":
                    w = d.fields.get(0)
                    val = ctx.force(w.fields[0]).e if isinstance(w, Agg) and 0 in w.fields else None
            if val is None:
                bad = "%s pushes something that is not a constant" % ty_
                continue
            expect = {"zero": z3.BitVecVal(0, 256), "immediate": z3.BitVec("push_immediate_be", 256), "ip": z3.ZeroExt(224, IPV)}[want]
            s = z3.Solver()
            for c_ in p.pc:
                s.add(c_)
            s.add(val != expect)
            if s.check() == z3.sat:
                bad = "%s pushes %s, expected %s" % (ty_, z3.simplify(val), want)
        _report(out, oid, bad, seen, "push_like", "%s pushes %s" % (ty_, want), "push-like-value:%s" % ty_)


def state_fork(out, eng):
    f = eng.fn(">::fork", file="src/vm/state/mod.rs")
    # only VMState's own code is followed; whatever else `fork` calls to build a component returns an arbitrary value,
    # which can never be recognised as "the component of the original" below
    ex = eng.explorer(havoc_unknown=True)

    def body(ctx):
        ctx.inline_filter = lambda name: "src/vm/state/mod.rs" in name
        cell = Cell(Lazy("vm::state::VMState", "st"), "st")
        r = ctx.run_fn(f, [Ref(cell, ()), Int(z3.BitVec("fork_point", 32), 32)])
        return r, cell, ctx
    oid = "W5.state_fork_keeps_everything"
    try:
        paths = ex.explore(body)
    except Unsupported as e:
        out.obligation(oid, "mirsmt", "inconclusive", 0, witness=False, note=str(e))
        out.inconc("%s: %s" % (oid, e))
        return
    fields = eng.src._find(eng.src.structs, "vm::state::VMState") or []
    bad, seen = None, 0
    for p in paths:
        if p.kind != "return":
            bad = "fork ends with %s" % p.kind
            continue
        r, cell, ctx = p.ret
        seen += 1
        if isinstance(r, Lazy):
            bad = "fork returns the state unchanged (fork_point not set)"
            continue
        for i, name in enumerate(fields):
            v = r.fields.get(i) if isinstance(r, Agg) else None
            if name == "fork_point":
                fp = ctx.force(v) if v is not None else None
                if fp is None or str(z3.simplify(fp.e)) != "fork_point":
                    bad = "fork does not record the fork point"
                continue
            # every other component must still be the (never inspected) component of the original
            if v is not None and not (isinstance(v, Lazy) and v.name == "st.%d" % i):
                if isinstance(v, Agg) and v.name == "st.%d" % i:
                    continue
                bad = "fork replaces `%s` instead of cloning it" % name
    _report(out, oid, bad, seen, "fork_keeps_storage", "VMState::fork clones stack, memory, storage, recorded / logged values, config and visit counts",
            "state-fork-drops-component")


# =============================================================================================================
# W6: composite opcodes (BYTE, ADDMOD, MULMOD): the tree they build, evaluated with the EVM meaning of each node kind
#     (C09), must equal the EVM result of the opcode for ALL 256-bit operands.  BYTE is decided over bit-vectors;
#     ADDMOD/MULMOD over mathematical integers with explicit mod 2^256 (bit-blasting a 512-bit divider does not
#     finish; the integer encoding answers in under a second).  Each opcode's operand space is split into regions so
#     that a known defect in one region does not hide a new one in another.
# =============================================================================================================
M256 = 1 << 256


def eval_tree(ctx, eng, v, ops, mode):
    """value of a built tree: operands are ops[k]; nodes are evaluated by EVM semantics (bv: 256-bit vectors, int: integers mod 2^256)"""
    W = 256

    def const(e):
        if mode == "bv":
            return e
        e = z3.simplify(e)
        if not z3.is_bv_value(e):
            raise Unsupported("symbolic constant in an integer-mode tree")
        return z3.IntVal(e.as_long())
    if isinstance(v, Obj) and v.kind == "operand":
        return ops[v.index]
    if isinstance(v, Obj) and v.kind == "knode":
        return const(v.value)
    if isinstance(v, Obj) and v.kind == "node":
        d = v.data
        if not isinstance(d, Agg):
            raise Unsupported("node data %r" % (d,))
        var = d.variant
        f = lambda name: eval_tree(ctx, eng, d.fields[eng.src.field_index(ENUM, name, var)], ops, mode)
        if var == "KnownData":
            return const(ctx.force(d.fields[0].fields[0]).e)
        if mode == "int":
            if var == "Add":
                return (f("left") + f("right")) % M256
            if var == "Subtract":
                return (f("left") - f("right")) % M256
            if var == "Multiply":
                return (f("left") * f("right")) % M256
            if var == "Modulo":
                a, b = f("dividend"), f("divisor")
                return z3.If(b == 0, 0, a % b)
            if var == "Divide":
                a, b = f("dividend"), f("divisor")
                return z3.If(b == 0, 0, a / b)
            raise Unsupported("node kind %s in integer mode" % var)
        big = z3.BitVecVal(256, W)
        zero = z3.BitVecVal(0, W)
        if var == "Add":
            return f("left") + f("right")
        if var == "Subtract":
            return f("left") - f("right")
        if var == "Multiply":
            return f("left") * f("right")
        if var == "Modulo":
            a, b = f("dividend"), f("divisor")
            return z3.If(b == 0, zero, z3.URem(a, b))
        if var == "Divide":
            a, b = f("dividend"), f("divisor")
            return z3.If(b == 0, zero, z3.UDiv(a, b))
        if var == "And":
            return f("left") & f("right")
        if var == "Or":
            return f("left") | f("right")
        if var == "RightShift":
            s_, x = f("shift"), f("value")
            return z3.If(z3.UGE(s_, big), zero, z3.LShR(x, s_))
        if var == "LeftShift":
            s_, x = f("shift"), f("value")
            return z3.If(z3.UGE(s_, big), zero, x << s_)
        raise Unsupported("node kind %s in a composite opcode" % var)
    raise Unsupported("value %r" % (v,))


def composite_specs():
    specs = {}
    i, x = z3.BitVec("op0", 256), z3.BitVec("op1", 256)
    specs["Byte"] = dict(file="src/opcode/logic.rs", mode="bv", ops=[i, x], opcode=0x1a,
                         spec=z3.If(z3.ULT(i, 32), z3.LShR(x, z3.BitVecVal(248, 256) - 8 * i) & 0xff, z3.BitVecVal(0, 256)),
                         regions=[("offset<2^253", z3.ULT(i, z3.BitVecVal(1 << 253, 256))),
                                  ("offset>=2^253", z3.UGE(i, z3.BitVecVal(1 << 253, 256)))])
    a, b, n = z3.Ints("op0 op1 op2")
    rng = z3.And(*[z3.And(v >= 0, v < M256) for v in (a, b, n)])
    specs["AddMod"] = dict(file="src/opcode/arithmetic.rs", mode="int", ops=[a, b, n], opcode=0x08,
                           spec=z3.If(n == 0, 0, (a + b) % n),
                           regions=[("a+b<2^256", z3.And(rng, a + b < M256)), ("a+b>=2^256", z3.And(rng, a + b >= M256))])
    specs["MulMod"] = dict(file="src/opcode/arithmetic.rs", mode="int", ops=[a, b, n], opcode=0x09,
                           spec=z3.If(n == 0, 0, (a * b) % n),
                           regions=[("a*b<2^256", z3.And(rng, a * b < M256)), ("a*b>=2^256", z3.And(rng, a * b >= M256))])
    return specs


def composite(out, eng):
    from . import jumps
    from mirsmt.summaries import load, some, none

    def builder_known(ctx, a_, ty, c):
        w = a_[2]
        val = ctx.force(w.fields[0]).e if isinstance(w, Agg) and 0 in w.fields else None
        if val is None:
            raise Unsupported("ValueBuilder::known of %r" % (w,))
        return Obj("knode", "RuntimeBoxedVal", value=val)

    def const_fold(ctx, a_, ty, c):
        v = load(ctx, a_[0])
        if isinstance(v, Obj) and v.kind == "operand":
            # the operand may or may not be a constant; when it is, its word is the operand's value
            return Obj("folded-operand", "Arc", index=v.index, const=ctx.choose(2) == 0)
        return NotImplemented

    def as_word(ctx, a_, ty, c):
        v = load(ctx, a_[0]) if isinstance(a_[0], Ref) else a_[0]
        if isinstance(v, Obj) and v.kind == "folded-operand":
            if v.const:
                return some(ty, Agg("KnownWord", {0: Int(z3.BitVec("op%d" % v.index, 256), 256)}))
            return none(ty)
        return NotImplemented

    def rc_deref(ctx, a_, ty, c):
        v = load(ctx, a_[0])
        if isinstance(v, Obj) and v.kind in ("folded-operand", "operand"):
            return Ref(Cell(v, "deref"), ())
        return NotImplemented
    extra = summaries() + [(r"^ValueBuilder::known$", builder_known), (r"^SymbolicValue::<\(\)>::constant_fold$", const_fold),
                           (r"^SymbolicValue::<\(\)>::as_word$", as_word), (r"^<Arc<SymbolicValue<\(\)>> as Deref>::deref$", rc_deref)]
    for op, sp in composite_specs().items():
        f = find_execute(eng, sp["file"], op)
        ex = eng.explorer(extra=extra)
        arity = len(sp["ops"])

        def body(ctx, f=f, op=op):
            ctx.assume(z3.And(jumps.vm_invariants(jumps.vm_names())[:7]))
            r = ctx.run_fn(f, [Ref(Cell(Agg("opcode::%s" % op), "self"), ()), Ref(Cell(Lazy("vm::VM", "vm"), "vm"), (), True)])
            return r, ctx
        t0 = time.time()
        try:
            paths = ex.explore(body)
        except Unsupported as e:
            out.obligation("W6.%s_semantics" % op, "mirsmt", "inconclusive", time.time() - t0, witness=False, note=str(e))
            out.inconc("W6.%s: %s" % (op, e))
            continue
        explore_s = time.time() - t0
        for region, pred in sp["regions"]:
            oid = "W6.%s_semantics[%s]" % (op, region)
            t0 = time.time()
            bad, model, seen = None, None, 0
            try:
                for p in paths:
                    if p.kind != "return" or not (isinstance(p.ret[0], Agg) and p.ret[0].variant == "Ok"):
                        continue
                    pushes = [e[1] for e in p.ctx.events if e[0] == "push"]
                    pops = [e for e in p.ctx.events if e[0] == "pop"]
                    if len(pushes) != 1 or len(pops) != arity:
                        bad = "%d pops / %d pushes" % (len(pops), len(pushes))
                        break
                    seen += 1
                    val = eval_tree(p.ctx, eng, pushes[0], sp["ops"], sp["mode"])
                    s = z3.Solver()
                    s.set("timeout", 120000)
                    if sp["mode"] == "bv":
                        for c_ in p.pc:
                            s.add(c_)
                    s.add(pred)
                    s.add(val != sp["spec"])
                    s.set("timeout", 30000 if sp["mode"] == "int" else 120000)
                    r_ = s.check()
                    if r_ == z3.unknown and sp["mode"] == "int":
                        # nonlinear integer query: look for a counterexample with all operands but one pinned to the
                        # property's boundary values (a model found this way is a model of the full query); an
                        # exhausted search stays inconclusive
                        import itertools
                        pins = [M256 - 1, 1 << 255, 3, (1 << 128) + 1]
                        for free in range(arity):
                            others = [k for k in range(arity) if k != free]
                            for combo in itertools.product(pins, repeat=len(others)):
                                s.push()
                                for k, c_ in zip(others, combo):
                                    s.add(sp["ops"][k] == c_)
                                s.set("timeout", 5000)
                                r_ = s.check()
                                if r_ == z3.sat:
                                    model = s.model()
                                s.pop()
                                if model is not None:
                                    break
                            if model is not None:
                                break
                        r_ = z3.sat if model is not None else z3.unknown
                    if r_ == z3.sat:
                        model = model or s.model()
                        bad = "the tree built for %s evaluates to %s, the EVM gives %s" % (
                            op.upper(), model.eval(val, model_completion=True), model.eval(sp["spec"], model_completion=True))
                        break
                    if r_ == z3.unknown:
                        raise Unsupported("z3: %s" % s.reason_unknown())
            except Unsupported as e:
                out.obligation(oid, "mirsmt", "inconclusive", time.time() - t0, witness=False, note=str(e))
                out.inconc("%s: %s" % (oid, e))
                continue
            dt = time.time() - t0 + explore_s
            if bad is None and seen:
                out.obligation(oid, "mirsmt", "holds", dt, witness=True, paths=seen, encoding=sp["mode"])
            elif bad is None:
                out.obligation(oid, "mirsmt", "vacuous", dt, witness=False)
                out.inconc("%s: no successful path" % oid)
            elif model is None:
                out.obligation(oid, "mirsmt", "violated", dt, witness=True, note=bad)
                out.violation(C.Violation(key="composite-opcode:%s:shape" % op, what="%s: %s" % (oid, bad), replay={"engine": "mirsmt"}))
            else:
                vals = [model.eval(o, model_completion=True).as_long() for o in sp["ops"]]
                want = model.eval(sp["spec"], model_completion=True).as_long()
                params = {"opcode": sp["opcode"], "want": "%064x" % want}
                for k, v_ in enumerate(vals):
                    params["op%d" % k] = "%064x" % v_
                confirmed, rep = native.scenario(out, "composite_opcode", params)
                if confirmed:
                    out.obligation(oid, "mirsmt", "violated", dt, witness=True, note=bad, replay=rep, operands=["%x" % v_ for v_ in vals])
                    out.violation(C.Violation(key="composite-opcode:%s:%s" % (op, region), what="%s: %s (operands %s)" % (
                        oid, bad, ", ".join("0x%x" % v_ for v_ in vals)), replay={"engine": "mirsmt", "native": rep}))
                else:
                    out.obligation(oid, "mirsmt", "cex-not-reproduced", dt, witness=False, note=bad, replay=rep)
                    out.inconc("%s: %s (not reproduced natively: %s)" % (oid, bad, str(rep)[:200]))


# =============================================================================================================
# W7: the generational stores.  Storage::store / Memory::store_with_size append exactly the stored value to the history
#     of exactly the addressed key, in the map that the key's kind selects; Storage::load / Memory::load never append to
#     an existing history.  Maps are modelled as "arbitrary content + the entries touched by this call"; every history
#     as "arbitrary (possibly empty) prefix + the pushes of this call"; everything else the bodies call is havoc'd.
# =============================================================================================================
def genmap_summaries():
    from mirsmt.summaries import load, some, none, call_closure, obj_at

    def mk_map(lz):
        return Obj("genmap", lz.ty, name=lz.name, entries=[])

    def mk_hist(name, fresh):
        return Obj("genvec", "Vec", name=name, fresh=fresh, pushed=[])

    def entry(ctx, a, ty, c):
        m = obj_at(ctx, a[0], mk_map)
        if m.kind != "genmap":
            return NotImplemented
        ctx.events.append(("map-entry", m.name, a[1]))
        return Obj("gentry", ty, map=m, key=a[1])

    def lookup(ctx, e, make_default):
        # the key may or may not be in the map already (arbitrary pre-state)
        absent = ctx.choose(2) == 1
        if absent:
            init = make_default()
            h = mk_hist("%s[new]" % e.map.name, True)
            if isinstance(init, Obj) and init.kind == "vec":
                h.pushed = list(init.pushed)
            else:
                from mirsmt.interp import type_args
                try:
                    et = type_args(type_args(e.map.ty)[1])[0]
                except Exception:
                    et = "?"
                h.pushed = [Lazy(et, "%s.initial" % e.map.name)]
            h.initial = len(h.pushed)
        else:
            h = mk_hist("%s[old]" % e.map.name, False)
            h.initial = 0
        e.map.entries.append((e.key, h))
        ctx.events.append(("history", e.map.name, h))
        return Ref(Cell(h, "history"), (), True)

    def or_insert(ctx, a, ty, c):
        if not (isinstance(a[0], Obj) and a[0].kind == "gentry"):
            return NotImplemented
        return lookup(ctx, a[0], lambda: a[1])

    def or_insert_with(ctx, a, ty, c):
        if not (isinstance(a[0], Obj) and a[0].kind == "gentry"):
            return NotImplemented
        return lookup(ctx, a[0], lambda: call_closure(ctx, a[1], []))

    def hist_of(ctx, r):
        v = load(ctx, r) if isinstance(r, Ref) else r
        return v if isinstance(v, Obj) and v.kind == "genvec" else None

    def push(ctx, a, ty, c):
        h = hist_of(ctx, a[0])
        if h is None:
            return NotImplemented
        h.pushed.append(a[1])
        return UNIT

    def last(ctx, a, ty, c):
        h = hist_of(ctx, a[0])
        if h is None:
            return NotImplemented
        if h.pushed:
            return some(ty, Ref(Cell(h.pushed[-1], "last"), ()))
        if h.fresh or ctx.choose(2) == 1:
            return none(ty)
        return some(ty, Ref(Cell(Lazy(re.sub(r"^.*Option<&(.*)>$", r"\1", ty.strip()), h.name + ".last"), "last"), ()))

    def deref_vec(ctx, a, ty, c):
        return a[0] if hist_of(ctx, a[0]) is not None else NotImplemented

    def other_map_op(ctx, a, ty, c):
        ctx.events.append(("map-op", c))
        return NotImplemented
    return [(r"^HashMap::<.*>::entry$", entry), (r"^Entry::<.*>::or_insert$", or_insert), (r"^Entry::<.*>::or_insert_with::<.*>$", or_insert_with),
            (r"^Vec::<.*>::push$", push), (r"^core::slice::<impl \[.*\]>::last$", last),
            (r"^<Vec<.*> as Deref(Mut)?>::deref(_mut)?$", deref_vec),
            (r"^HashMap::<.*>::(insert|remove|clear|retain|get_mut|drain|extend)", other_map_op)]


def generational_stores(out, eng):
    from mirsmt.summaries import load

    def same_value(a, b):
        if a is b:
            return True
        return isinstance(a, Lazy) and isinstance(b, Lazy) and a.name == b.name

    def fn_in(suffix, file):
        return eng.fn(suffix, file=file)
    targets = [
        ("W7.storage_store", fn_in(">::store", "src/vm/state/storage.rs"), "storage", "store"),
        ("W7.storage_load", fn_in(">::load", "src/vm/state/storage.rs"), "storage", "load"),
        ("W7.memory_store", fn_in(">::store_with_size", "src/vm/state/memory.rs"), "memory", "store"),
        ("W7.memory_load", fn_in(">::load", "src/vm/state/memory.rs"), "memory", "load"),
    ]
    for oid, f, which, op in targets:
        t0 = time.time()
        if f is None:
            out.inconc("%s: function not found in the MIR dump" % oid)
            continue
        ex = eng.explorer(extra=genmap_summaries(), havoc_unknown=True, max_visits=3, max_seconds=120)
        KEY = Lazy("Arc<SymbolicValue<()>>", "key")
        VAL = Lazy("Arc<SymbolicValue<()>>", "value")

        def body(ctx, f=f, which=which, op=op):
            ctx.inline_filter = lambda name: bool(re.search(r"src/vm/state/(storage|memory)\.rs|::data$|\{closure#\d+\}$", name))
            st = Cell(Lazy("vm::state::%s::%s" % (which, which.capitalize()), "st"), "st")
            if which == "storage" and op == "store":
                args = [Ref(st, (), True), KEY, VAL]
            elif which == "storage":
                args = [Ref(st, (), True), Ref(Cell(KEY, "key"), ())]
            elif op == "store":
                args = [Ref(st, (), True), KEY, VAL, Lazy("vm::state::memory::MemStoreSize", "size")]
            else:
                args = [Ref(st, (), True), Ref(Cell(KEY, "key"), ())]
            r = ctx.run_fn(f, args)
            return r, ctx
        try:
            paths = ex.explore(body)
        except Unsupported as e:
            out.obligation(oid, "mirsmt", "inconclusive", time.time() - t0, witness=False, note=str(e))
            out.inconc("%s: %s" % (oid, e))
            continue
        bad, seen = None, 0
        for p in paths:
            if p.kind == "panic":
                continue          # C01's business
            if p.kind != "return":
                bad = bad or "a path ends with %s (%s)" % (p.kind, p.msg[:60])
                continue
            ctx = p.ret[1]
            seen += 1
            hists = [e for e in ctx.events if e[0] == "history"]
            stray = [e for e in ctx.events if e[0] == "map-op"]
            if stray:
                bad = "the map is also modified through %s" % stray[0][1][:60]
                continue
            if len(hists) != 1:
                bad = "touches %d histories, one access addresses exactly one" % len(hists)
                continue
            h = hists[0][2]
            new = h.pushed[h.initial:]
            if op == "store":
                if len(new) != 1:
                    bad = "a store appends %d generations to the addressed history (must be exactly one)" % len(new)
                    continue
                got = new[0]
                if which == "memory":
                    got = got.fields.get(0) if isinstance(got, Agg) else None
                if not same_value(got, VAL):
                    bad = "the appended generation is not the stored value"
            else:
                if new and not h.fresh:
                    bad = "a load appends a generation to an existing history"
                if h.fresh and len(h.pushed) != 1:
                    bad = "a load of a never-accessed key initialises its history with %d generations (must be one)" % len(h.pushed)
        dt = time.time() - t0
        what = {"store": "a store appends exactly the stored value to exactly the addressed history",
                "load": "a load leaves existing histories as they are and initialises a missing one with one generation"}[op]
        if bad is None and seen:
            out.obligation(oid, "mirsmt", "holds", dt, witness=True, paths=seen, note=what)
        elif bad is None:
            out.obligation(oid, "mirsmt", "vacuous", dt, witness=False)
            out.inconc("%s: no returning path" % oid)
        else:
            confirmed, rep = native.scenario(out, "%s_history" % which, {})
            if confirmed:
                out.obligation(oid, "mirsmt", "violated", dt, witness=True, note=bad, replay=rep)
                out.violation(C.Violation(key="generational-store:%s" % oid, what="%s: %s" % (oid, bad), replay={"engine": "mirsmt", "native": rep}))
            else:
                out.obligation(oid, "mirsmt", "cex-not-reproduced", dt, witness=False, note=bad, replay=rep)
                out.inconc("%s: %s (not reproduced natively: %s)" % (oid, bad, str(rep)[:200]))
