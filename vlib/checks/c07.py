"""C07 — every explored path computes what a concrete EVM computes: OPERAND-WIRING KERNEL ONLY (Engine B).

The statement is about end states of whole paths, which no engine here can execute.  What is decided is the local
half that links the three things decided elsewhere (C09: meaning of each node kind on constants; C10: PUSH decoding):
for each simple ALU opcode, `execute` pops exactly its operands, builds ONE node of the variant that denotes the
opcode with the operands in their EVM roles (mu_s[0] = top of stack), pushes exactly that node, and touches nothing
else.  ADDMOD / MULMOD / BYTE build composite trees and are outside (listed in the evidence)."""
import re
import time

import z3

from .. import common as C
from .. import mirrun, native
from .c08 import find_execute
from mirsmt.interp import Agg, Cell, Int, Lazy, Obj, Ref, Unsupported, UNIT
from mirsmt.summaries import err, ok

# opcode struct -> (file, node variant, {field: operand index in pop order}), Yellow Paper operand order
A, L = "src/opcode/arithmetic.rs", "src/opcode/logic.rs"
TABLE = {
    "Add": (A, "Add", {"left": 0, "right": 1}), "Mul": (A, "Multiply", {"left": 0, "right": 1}),
    "Sub": (A, "Subtract", {"left": 0, "right": 1}), "Div": (A, "Divide", {"dividend": 0, "divisor": 1}),
    "SDiv": (A, "SignedDivide", {"dividend": 0, "divisor": 1}), "Mod": (A, "Modulo", {"dividend": 0, "divisor": 1}),
    "SMod": (A, "SignedModulo", {"dividend": 0, "divisor": 1}), "Exp": (A, "Exp", {"value": 0, "exponent": 1}),
    # SIGNEXTEND(b, x): mu_s[0] = b selects the size, mu_s[1] = x is the value that is extended
    "SignExtend": (A, "SignExtend", {"size": 0, "value": 1}),
    "Lt": (L, "LessThan", {"left": 0, "right": 1}), "Gt": (L, "GreaterThan", {"left": 0, "right": 1}),
    "SLt": (L, "SignedLessThan", {"left": 0, "right": 1}), "SGt": (L, "SignedGreaterThan", {"left": 0, "right": 1}),
    "Eq": (L, "Equals", {"left": 0, "right": 1}), "IsZero": (L, "IsZero", {"number": 0}),
    "And": (L, "And", {"left": 0, "right": 1}), "Or": (L, "Or", {"left": 0, "right": 1}), "Xor": (L, "Xor", {"left": 0, "right": 1}),
    "Not": (L, "Not", {"value": 0}),
    # SHL/SHR/SAR(shift, value): mu_s[0] = shift
    "Shl": (L, "LeftShift", {"shift": 0, "value": 1}), "Shr": (L, "RightShift", {"shift": 0, "value": 1}),
    "Sar": (L, "ArithmeticRightShift", {"shift": 0, "value": 1}),
}
COMMUTATIVE = {"Add", "Mul", "Eq", "And", "Or", "Xor"}
ENUM = "vm::value::SymbolicValueData"


def summaries():
    def pop(ctx, a, ty, c):
        n = sum(1 for e in ctx.events if e[0] == "pop")
        if ctx.choose(2) == 0:
            v = Obj("operand", "RuntimeBoxedVal", index=n)
            ctx.events.append(("pop", n))
            return ok(ty, v)
        ctx.events.append(("pop-failed", n))
        return err(ty, Agg("Located", {0: Lazy("u32", "e_loc%d" % n), 1: Lazy("error::execution::Error", "e%d" % n)}))

    def push(ctx, a, ty, c):
        ctx.events.append(("push", a[1]))
        if ctx.choose(2) == 0:
            return ok(ty, UNIT)
        return err(ty, Agg("Located", {0: Lazy("u32", "p_loc"), 1: Lazy("error::execution::Error", "p_err")}))

    def build(ctx, a, ty, c):
        return Ref(Cell(Obj("builder", "ValueBuilder"), "builder"), ())

    def symbolic_exec(ctx, a, ty, c):
        node = Obj("node", "RuntimeBoxedVal", data=a[2], index=sum(1 for e in ctx.events if e[0] == "node"))
        ctx.events.append(("node", node))
        return node

    def clone(ctx, a, ty, c):
        from mirsmt.summaries import load
        return load(ctx, a[0])
    return [(r"^LocatedStackHandle::<'_>::pop$", pop), (r"^LocatedStackHandle::<'_>::push$", push), (r"^VM::build$", build),
            (r"^ValueBuilder::symbolic_exec$", symbolic_exec), (r"^<Arc<SymbolicValue<\(\)>> as Clone>::clone$", clone)]


def run(out, tier):
    eng = mirrun.load_engine(out)
    out.functions += ["opcode::{arithmetic,logic}::<22 simple ALU opcodes>::execute"]
    out.bounds += ["one execution of each opcode's `execute` from an arbitrary VM state; stack traffic abstracted to "
                   "pop -> k-th operand | error, push -> ok | error; all paths"]
    out.assumptions += ["ONLY the operand-wiring kernel of C07 is decided: the meaning of each node kind on constants is C09, PUSH decoding is C10; "
                        "end states of whole paths, memory / storage histories and branch isolation are NOT decided",
                        "ADDMOD, MULMOD and BYTE build composite trees (Modulo(Add(..)) etc.) and are outside; note that Modulo(Add(a,b),n) "
                        "wraps the sum at 2^256, which the EVM's ADDMOD does not",
                        "the variant -> opcode and field -> operand-role table in c07.py is written from the Yellow Paper"]
    outside = ["AddMod", "MulMod", "Byte"]
    out.extra["outside_the_kernel"] = outside
    for op, (file, variant, roles) in TABLE.items():
        oid = "W.%s" % op
        f = find_execute(eng, file, op)
        if f is None:
            out.inconc("%s: execute not found" % oid)
            continue
        ex = eng.explorer(extra=summaries())

        def body(ctx, f=f, op=op):
            from . import jumps
            ctx.assume(z3.And(jumps.vm_invariants(jumps.vm_names())[:7]))      # a VM between instructions
            cell = Cell(Lazy("vm::VM", "vm"), "vm")
            r = ctx.run_fn(f, [Ref(Cell(Agg("opcode::%s" % op), "self"), ()), Ref(cell, (), True)])
            return r, ctx
        t0 = time.time()
        try:
            paths = ex.explore(body)
        except Unsupported as e:
            out.obligation(oid, "mirsmt", "inconclusive", 0, witness=False, note=str(e))
            out.inconc("%s: %s" % (oid, e))
            continue
        bad = None
        n_ok = 0
        for p in paths:
            if p.kind != "return":
                bad = "path ends with %s (%s)" % (p.kind, p.msg[:60])
                continue
            r, ctx = p.ret
            pops = [e for e in ctx.events if e[0] == "pop"]
            nodes = [e[1] for e in ctx.events if e[0] == "node"]
            pushes = [e[1] for e in ctx.events if e[0] == "push"]
            if not (isinstance(r, Agg) and r.variant == "Ok"):
                # an error return must not have pushed a result
                continue
            n_ok += 1
            if len(pops) != len(roles):
                bad = "pops %d operands, the opcode takes %d" % (len(pops), len(roles))
                continue
            if len(nodes) != 1 or len(pushes) != 1 or pushes[0] is not nodes[0]:
                bad = "does not push exactly the one node it builds"
                continue
            d = nodes[0].data
            if not (isinstance(d, Agg) and d.variant == variant):
                bad = "builds %s instead of %s" % (getattr(d, "variant", d), variant)
                continue
            got = {}
            for fname, want_idx in roles.items():
                fi = eng.src.field_index(ENUM, fname, variant)
                v = d.fields.get(fi)
                got[fname] = v.index if isinstance(v, Obj) and v.kind == "operand" else None
            if got != roles:
                swapped = {k: (1 - v if v in (0, 1) else v) for k, v in roles.items()}
                if op in COMMUTATIVE and got == swapped:
                    continue
                bad = "operands wired as %s, the EVM roles are %s (index = position from the top of the stack)" % (got, roles)
        dt = time.time() - t0
        if bad is None and n_ok:
            out.obligation(oid, "mirsmt", "holds", dt, witness=True, paths=len(paths))
        elif bad is None:
            out.obligation(oid, "mirsmt", "vacuous", dt, witness=False)
            out.inconc("%s: no successful path" % oid)
        else:
            confirmed, rep = native.scenario(out, "opcode_wiring", {"name": op})
            if confirmed:
                out.obligation(oid, "mirsmt", "violated", dt, witness=True, note=bad, replay=rep)
                out.violation(C.Violation(key="opcode-wiring:%s" % op, what="%s: %s" % (op.upper(), bad),
                                          replay={"engine": "mirsmt", "obligation": oid, "native": rep}))
            else:
                out.obligation(oid, "mirsmt", "cex-not-reproduced", dt, witness=False, note=bad, replay=rep)
                out.inconc("%s: %s (not reproduced natively: %s)" % (oid, bad, rep))
