"""C19 — union-find forest and vector map conform to their abstract models.

Vector map (Engine A): one / two operations from an arbitrary valid state.
Forest (Engine B): one operation from an arbitrary valid forest (added by mirsmt).
"""
from .. import kani, mirrun
from . import forest

VMAP = ["vmap_one_op", "vmap_iteration", "vmap_ops_then_iteration", "vmap_grow"]
VMAP_THOROUGH = ["vmap_two_ops"]
TWINS = ["vmap_twin"]


def run(out, tier):
    out.functions += ["data::vector_map::VectorMap::{insert,remove,get,len,is_empty,iter,indices}"]
    out.bounds += ["VectorMap<usize,u8>, buffer of 4 slots with symbolic contents (arbitrary valid state: size == "
                   "number of occupied slots), symbolic operation, key in 0..6, value any u8; one step (quick) and "
                   "two steps (thorough); growth only with concrete keys (vmap_grow)",
                   "unwind 8 with unwinding assertions"]
    out.trusted += ["Kani 0.68 / CBMC 6.11", "hook VectorMap::verif_from_parts (add-only constructor)"]
    out.assumptions += ["keys that would grow the buffer are exercised with concrete values only "
                        "(symbolic reallocation exhausts memory under CBMC)"]
    eng = mirrun.load_engine(out)
    forest.run_forest(out, eng, tier)
    names = VMAP + (VMAP_THOROUGH if tier == "thorough" else []) + TWINS
    kani.run_family(out, names, expect_fail=TWINS, tier=tier)
