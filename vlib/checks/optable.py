"""Reference opcode table (Yellow Paper, Shanghai): byte -> name of the crate's opcode type that must decode it.
Written by hand from the specification's opcode list and compared with it entry by entry; it is NOT generated from the
crate.  Ranges: PUSH1..32 = 0x60..0x7f, DUP1..16 = 0x80..0x8f, SWAP1..16 = 0x90..0x9f, LOG0..4 = 0xa0..0xa4."""

SINGLE = {
    0x00: "Stop", 0x01: "Add", 0x02: "Mul", 0x03: "Sub", 0x04: "Div", 0x05: "SDiv", 0x06: "Mod", 0x07: "SMod",
    0x08: "AddMod", 0x09: "MulMod", 0x0a: "Exp", 0x0b: "SignExtend",
    0x10: "Lt", 0x11: "Gt", 0x12: "SLt", 0x13: "SGt", 0x14: "Eq", 0x15: "IsZero", 0x16: "And", 0x17: "Or", 0x18: "Xor",
    0x19: "Not", 0x1a: "Byte", 0x1b: "Shl", 0x1c: "Shr", 0x1d: "Sar",
    0x20: "Sha3",
    0x30: "Address", 0x31: "Balance", 0x32: "Origin", 0x33: "Caller", 0x34: "CallValue", 0x35: "CallDataLoad",
    0x36: "CallDataSize", 0x37: "CallDataCopy", 0x38: "CodeSize", 0x39: "CodeCopy", 0x3a: "GasPrice", 0x3b: "ExtCodeSize",
    0x3c: "ExtCodeCopy", 0x3d: "ReturnDataSize", 0x3e: "ReturnDataCopy", 0x3f: "ExtCodeHash",
    0x40: "BlockHash", 0x41: "CoinBase", 0x42: "Timestamp", 0x43: "Number", 0x44: "Prevrandao", 0x45: "GasLimit",
    0x46: "ChainId", 0x47: "SelfBalance", 0x48: "BaseFee",
    0x50: "Pop", 0x51: "MLoad", 0x52: "MStore", 0x53: "MStore8", 0x54: "SLoad", 0x55: "SStore", 0x56: "Jump", 0x57: "JumpI",
    0x58: "PC", 0x59: "MSize", 0x5a: "Gas", 0x5b: "JumpDest", 0x5f: "Push0",
    0xf0: "Create", 0xf1: "Call", 0xf2: "CallCode", 0xf3: "Return", 0xf4: "DelegateCall", 0xf5: "Create2",
    0xfa: "StaticCall", 0xfd: "Revert", 0xfe: "Invalid", 0xff: "SelfDestruct",
}
RANGES = [(0x60, 0x7f, "PushN"), (0x80, 0x8f, "DupN"), (0x90, 0x9f, "SwapN"), (0xa0, 0xa4, "LogN")]


def expected(byte):
    """type name that must decode `byte`; unassigned bytes behave as INVALID"""
    if byte in SINGLE:
        return SINGLE[byte]
    for lo, hi, name in RANGES:
        if lo <= byte <= hi:
            return name
    return "Invalid"
