"""C18 — symbolic values stay within the size limit and report their true size (Engine B).

`size() == number of nodes` is an inductive invariant of the value type; its local steps are decided on the MIR:
  S1  RSV::new stores 1 + child_size(data) for the data it KEEPS, and 1 when it replaces the data by an opaque leaf;
      it replaces exactly when 1 + child_size(data) > limit.
  S2  for every variant, child_size sums the sizes of exactly the children that children() returns.
  S3  every transformer that builds a node (constant_fold, transform_data, TCSV::new) stores child_size(new data) + 1.
"""
import re
import time

import z3

from .. import common as C
from .. import mirrun, native
from .c03 import verdict, variant
from mirsmt.interp import Agg, Bool, Cell, Int, Lazy, Obj, Ref, Unsupported, UNIT
from mirsmt.oblig import Prover, ev
from mirsmt.summaries import load

ENUM = "vm::value::SymbolicValueData"


def child_size_uf(eng):
    real = eng.fn(">::child_size", file="src/vm/value/mod.rs")

    def f(ctx, a, ty, c):
        v = load(ctx, a[0])
        if isinstance(v, Lazy):
            return Int(z3.BitVec("child_size(%s)" % v.name, 64), 64)
        if isinstance(v, Obj) and hasattr(v, "uid"):
            return Int(z3.BitVec("child_size(%s)" % v.uid, 64), 64)
        if isinstance(v, Agg) and v.variant is not None and not v.fields or (isinstance(v, Agg) and v.variant in ("Value", "KnownData")):
            return Int(0, 64) if v.variant in ("Value", "KnownData", "CallDataSize") else NotImplemented
        return NotImplemented
    return f


def uuid_new(ctx, a, ty, c):
    return Obj("uuid", "Uuid")


def inner(v):
    if isinstance(v, Agg) and "inner" in v.attrs:
        return v.attrs["inner"].v
    return v


def run(out, tier):
    eng = mirrun.load_engine(out)
    pr = Prover(out)
    out.functions += ["vm::value::RSV::new", "vm::value::SymbolicValue::{constant_fold,transform_data}", "vm::value::TCSV::new",
                      "vm::value::SymbolicValueData::{child_size,children,new_value}"]
    out.bounds += ["every field value; every variant of SymbolicValueData (66); limits: any usize or none; vector-valued fields "
                   "(Log.topics, Concat.values, Packed.elements) as abstract sequences of any length"]
    out.assumptions += ["the step from S1-S3 to `size == node count for every value` is structural induction over the value tree (argument, not a query)",
                        "native stack depth / allocation are outside"]
    s1(out, eng, pr)
    s3(out, eng, pr)
    from . import sizes
    sizes.s2(out, eng, pr)
    out.extra["solver_queries"] = pr.n_queries


def s1(out, eng, pr):
    f = eng.fn(">::new", file="src/vm/value/mod.rs:206") if False else None
    for n, fn in eng.fns.items():
        if n.endswith(">::new") and "src/vm/value/mod.rs" in n and len(fn.args) == 4 and "Option<usize>" in fn.args[3][1] \
                and "Provenance" in fn.args[2][1]:
            f = fn
    if f is None:
        out.inconc("S1: RSV::new not found")
        return
    extra = [(r"^SymbolicValueData::<.*>::child_size$", child_size_uf(eng)), (r"new_v4$", uuid_new)]
    ex = eng.explorer(extra=extra)
    CS = z3.BitVec("child_size(data)", 64)

    def body(ctx):
        data = Lazy(ENUM + "<()>", "data")
        lim = Lazy("std::option::Option<usize>", "limit")
        r = ctx.run_fn(f, [Int(z3.BitVec("ip", 32), 32), data, Lazy("vm::value::Provenance", "prov"), lim])
        return r, ctx
    paths = ex.explore(body)
    LIM = z3.BitVec("limit.Some.0", 64)

    def post(p):
        if p.kind == "panic":
            return CS == z3.BitVecVal(-1, 64)          # only 1 + usize::MAX may overflow
        r, ctx = p.ret
        sv = inner(r)
        size = ctx.force(sv.fields[4]).e
        data = sv.fields[2]
        has_limit = any(t[0] == "variant" and t[1] == "limit" and t[2] == "Some" for t in ctx.trace)
        kept = isinstance(data, Lazy) and data.name == "data"
        over = z3.UGT(CS + 1, LIM)
        if kept:
            c = [size == CS + 1]
            if has_limit:
                c.append(z3.Not(over))
            return z3.And(c)
        # replaced by an opaque leaf
        is_leaf = isinstance(data, Agg) and data.variant == "Value"
        return z3.And(z3.BoolVal(is_leaf and has_limit), over, size == 1)

    def replay(p, model):
        return native.scenario(out, "culled_size", {"limit": 2})
    verdict(out, pr, "S1.rsv_new", paths, post, kinds=("return", "panic"), replay=replay, key="culled-value-keeps-pre-culling-size",
            what="RSV::new: a kept value reports 1 + the sizes of its children; a culled value is an opaque leaf reporting size 1; "
                 "culling happens exactly when the value would exceed the limit")


def s3(out, eng, pr):
    extra = [(r"^SymbolicValueData::<.*>::child_size$", child_size_uf(eng)), (r"new_v4$", uuid_new)]
    counter = [0]

    def opaque_data(kind):
        def f(ctx, a, ty, c):
            counter[0] += 1
            return Obj("svd", ENUM, uid="%s#%d" % (kind, counter[0]))
        return f
    extra += [(r"^SymbolicValueData::<AuxData>::constant_fold$", opaque_data("folded")),
              (r"^SymbolicValueData::<AuxData>::transform::<.*>$", opaque_data("transformed"))]
    targets = []
    for n, fn in eng.fns.items():
        if "src/vm/value/mod.rs" not in n:
            continue
        if n.endswith(">::constant_fold") and fn.ret.startswith("Arc<"):
            targets.append(("S3.constant_fold", fn, "self"))
        if n.endswith(">::transform_data"):
            targets.append(("S3.transform_data", fn, "self"))
        if n.endswith(">::new") and len(fn.args) == 4 and "TypeVariable" in fn.args[3][1]:
            targets.append(("S3.tcsv_new", fn, "new"))
    if len(targets) < 3:
        out.inconc("S3: expected 3 node builders, found %s" % [t[0] for t in targets])
    for oid, fn, how in targets:
        ex = eng.explorer(extra=extra)

        def body(ctx, fn=fn, how=how):
            counter[0] = 0
            if how == "self":
                cell = Cell(Lazy("vm::value::SymbolicValue<AuxData>", "sv"), "sv")
                args = [Ref(cell, ())]
                if len(fn.args) == 2:
                    args.append(Obj("fnparam", "impl Fn"))
                r = ctx.run_fn(fn, args)
            else:
                r = ctx.run_fn(fn, [Int(z3.BitVec("ip", 32), 32), Lazy(ENUM + "<TypeVariable>", "data"),
                                    Lazy("vm::value::Provenance", "prov"), Lazy("TypeVariable", "tv")])
            return r, ctx
        try:
            paths = ex.explore(body)
        except Unsupported as e:
            out.obligation(oid, "mirsmt", "inconclusive", 0, witness=False, note=str(e))
            out.inconc("%s: %s" % (oid, e))
            continue

        def post(p):
            if p.kind == "panic":
                return None
            r, ctx = p.ret
            sv = inner(r)
            size = ctx.force(sv.fields[4]).e
            data = sv.fields[2]
            if isinstance(data, Obj) and hasattr(data, "uid"):
                cs = z3.BitVec("child_size(%s)" % data.uid, 64)
            elif isinstance(data, Lazy):
                cs = z3.BitVec("child_size(%s)" % data.name, 64)
            else:
                return z3.BoolVal(False)
            return size == cs + 1
        verdict(out, pr, oid, paths, post, what="the node built here stores child_size(of the data it stores) + 1")
