"""Engine A driver: run Kani harnesses from /verif/kani against /repo's working tree,
parse per-harness verdicts, extract counterexamples (concrete playback) and replay them
natively through the same harness body (bin/replay, dev + release)."""
import os
import re
import shutil
import threading
import time
from concurrent.futures import ThreadPoolExecutor

from . import common as C

KANI_DIR = os.path.join(C.VERIF, "kani")
MEM_KB = 20 * 1024 * 1024   # ulimit -v per process (cbmc): 20 GB


class HResult:
    def __init__(self, name):
        self.name = name
        self.status = "missing"   # success | failed | timeout | error | missing
        self.failed = []          # [(description, file, line, function)]
        self.cover_ok = None
        self.time_s = 0.0
        self.stubs = []
        self.playback = []        # list of (check description, [bytes...])
        self.undetermined = 0

    def __repr__(self):
        return "<%s %s %s %.1fs>" % (self.name, self.status, self.failed, self.time_s)


def _sync_lock():
    """Cargo.lock is copied from /repo so that no resolution is ever needed offline."""
    src = os.path.join(C.REPO, "Cargo.lock")
    dst = os.path.join(KANI_DIR, "Cargo.lock")
    # keep our own lock if it already resolves (it contains extra direct deps)
    if not os.path.exists(dst):
        shutil.copy(src, dst)


_ANSI = re.compile(r"\x1b\[[0-9;]*m")


def parse(out, names):
    """Parse terse output (possibly interleaved by -j) into HResults."""
    res = {n: HResult(n) for n in names}
    cur_by_thread = {}
    cur = None            # harness whose result block we are in
    last_thread = None
    pending_fail = None
    lines = [_ANSI.sub("", l) for l in out.splitlines()]
    i = 0
    while i < len(lines):
        l = lines[i]
        m = re.match(r"^(?:Thread (\d+): )?Checking harness (\S+?)\.\.\.$", l.strip())
        if m:
            th = m.group(1) or "0"
            h = m.group(2).split("::")[-1]
            cur_by_thread[th] = h
            last_thread = th
            if not m.group(1):
                cur = h
            i += 1
            continue
        m = re.match(r"^Thread (\d+):\s*-\s*Stub: (.*)$", l.strip())
        if m:
            h = cur_by_thread.get(m.group(1))
            if h in res:
                res[h].stubs.append(m.group(2).replace(" ", ""))
            i += 1
            continue
        m = re.match(r"^\s*-\s*Stub: (.*)$", l)
        if m and cur in res:
            res[cur].stubs.append(m.group(1).replace(" ", ""))
            i += 1
            continue
        m = re.match(r"^Thread (\d+):\s*$", l.strip())
        if m:
            cur = cur_by_thread.get(m.group(1))
            i += 1
            continue
        if cur in res:
            r = res[cur]
            m = re.match(r"^ \*\* (\d+) of (\d+) failed(?: \((.*)\))?", l)
            if m:
                mm = re.search(r"(\d+) undetermined", m.group(3) or "")
                r.undetermined = int(mm.group(1)) if mm else 0
            m = re.match(r"^ \*\* (\d+) of (\d+) cover properties satisfied", l)
            if m:
                r.cover_ok = (m.group(1) == m.group(2)) and int(m.group(2)) > 0
            m = re.match(r"^Failed Checks: (.*)$", l)
            if m:
                desc = m.group(1)
                f, ln, fn = "", 0, ""
                if i + 1 < len(lines):
                    m2 = re.match(r'^ File: "(.*)", line (\d+), in (.*)$', lines[i + 1])
                    if m2:
                        f, ln, fn = m2.group(1), int(m2.group(2)), m2.group(3)
                r.failed.append((desc, f, ln, fn))
            if l.startswith("VERIFICATION:- SUCCESSFUL"):
                r.status = "success"
            elif l.startswith("VERIFICATION:- FAILED"):
                r.status = "failed"
            elif "CBMC timed out" in l or "timed out" in l.lower() and "harness" in l.lower():
                r.status = "timeout"
            m = re.match(r"^Verification Time: ([0-9.]+)s", l)
            if m:
                r.time_s = float(m.group(1))
        i += 1
    # A "failed" verdict caused by OOM / CBMC error is not a counterexample.
    for r in res.values():
        if r.status == "failed" and not r.failed:
            r.status = "error"
    return res


def parse_playback(out):
    """-> {harness: [(check description, [hex strings])]}"""
    res = {}
    blocks = re.split(r"Concrete playback unit test for `", out)
    for b in blocks[1:]:
        h = b.split("`", 1)[0].split("::")[-1]
        m = re.search(r'Check for `(\w+)`: "(.*)"', b)
        kind, desc = (m.group(1), m.group(2)) if m else ("?", "?")
        vals = []
        body = b.split("concrete_vals", 1)[-1]
        body = body.split("];", 1)[0]
        for vm in re.finditer(r"vec!\[([0-9, ]*)\]", body):
            nums = [int(x) for x in vm.group(1).replace(" ", "").split(",") if x != ""]
            vals.append(bytes(nums).hex())
        res.setdefault(h, []).append((kind, desc, vals))
    return res


def cargo_kani(names, target, timeout_s, jobs=16, playback=False, extra=None):
    _sync_lock()
    cmd = ["cargo", "kani", "--target-dir", target, "-Z", "stubbing", "-Z", "unstable-options",
           "--output-format", "terse", "--exact", "--harness-timeout", "%ds" % timeout_s]
    if playback:
        cmd += ["-Z", "concrete-playback", "--concrete-playback=print"]
    else:
        cmd += ["-j", str(jobs)]
    for n in names:
        cmd += ["--harness", "proofs::" + n]
    if extra:
        cmd += extra
    shell = "ulimit -v %d; exec %s" % (MEM_KB, " ".join(cmd))
    t0 = time.time()
    # global cap: build + all harnesses even if every one ran to its timeout in waves
    waves = (len(names) + jobs - 1) // jobs if not playback else len(names)
    cap = 600 + timeout_s * max(1, waves) + 60
    rc, out = C.sh(["bash", "-c", shell], cwd=KANI_DIR, timeout=cap)
    return rc, out, time.time() - t0


def build_replay(target):
    """Build bin/replay in dev and release against /repo's working tree."""
    outs = {}
    for prof, flag in (("debug", []), ("release", ["--release"])):
        rc, out = C.sh(["cargo", "build", "--offline", "--bin", "replay", "--target-dir", target] + flag,
                       cwd=KANI_DIR, timeout=1200)
        if rc != 0:
            return None, out
        outs[prof] = os.path.join(target, prof, "replay")
    return outs, ""


def replay(bins, harness, vals):
    """-> {profile: (outcome, detail)}"""
    res = {}
    for prof, b in bins.items():
        rc, out = C.sh([b, harness, ",".join(vals)], timeout=120)
        m = re.search(r"REPLAY harness=\S+ outcome=(\w+) detail=(.*)", out)
        if m:
            res[prof] = (m.group(1), m.group(2).strip())
        else:
            res[prof] = ("crashed", out.strip()[-300:])
    return res


def classify(failed_check):
    """Role-based class of a failed CBMC check: where it is and what kind, never the witness."""
    desc, f, ln, fn = failed_check
    fn_short = re.sub(r"<src::KaniSrc>|::<src::KaniSrc>", "", fn)
    if "unwinding assertion" in desc:
        return "unwind", "unwind:%s" % fn_short
    if f.startswith("src/h_") or "/verif/kani/" in f:
        # an assertion of the harness itself: the message names the obligation
        return "assert", "assert:%s" % desc.strip('"')
    base = os.path.basename(f)
    return "panic", "panic:%s@%s" % (fn_short, base)


def run_family(out, names, expect_fail=(), tier="quick", timeout_s=None, target_tag=None, jobs=16, classes=None):
    """Run harnesses `names`; record obligations/violations into Outcome `out`.

    expect_fail: vacuity twins, which must come back FAILED.
    """
    only_classes = classes
    timeout_s = timeout_s or (150 if tier == "quick" else 900)
    tag = target_tag or out.prop
    target = os.path.join(C.WORK, "target-kani-%s" % tag)
    ntarget = os.path.join(C.WORK, "target-native-%s" % tag)
    native = {}
    nthread = threading.Thread(target=lambda: native.update(zip(("bins", "err"), build_replay(ntarget))))
    nthread.start()
    rc, log, wall = cargo_kani(names, target, timeout_s, jobs=jobs)
    with open(os.path.join(C.WORK, "kani-%s.log" % tag), "w") as f:
        f.write(log)
    res = parse(log, names)
    if "error: could not compile" in log or "error[E" in log:
        nthread.join()
        out.inconc("kani build failed (see .work/kani-%s.log)" % tag)
        return res
    failed = []
    for n in names:
        r = res[n]
        if n in expect_fail:
            ok = r.status == "failed" and any(d[0].strip('"') == "TWIN" for d in r.failed)
            out.obligation(n, "kani", "expected-fail" if ok else "twin-passed", r.time_s,
                           witness=False, note="vacuity twin: final assert(false) must be violated")
            if not ok:
                out.inconc("vacuity twin %s did not fail (%s): family is vacuous" % (n, r.status))
            continue
        if r.status == "success":
            if r.cover_ok is False:
                out.obligation(n, "kani", "vacuous", r.time_s, witness=False, stubs=r.stubs)
                out.inconc("harness %s passed but its reachability cover is UNSATISFIED" % n)
            else:
                out.obligation(n, "kani", "holds", r.time_s, witness=bool(r.cover_ok), stubs=r.stubs)
        elif r.status == "failed":
            failed.append(n)
        else:
            out.obligation(n, "kani", r.status, r.time_s, witness=False, stubs=r.stubs)
            out.inconc("harness %s: %s (cap %ds)" % (n, r.status, timeout_s))
    if not failed:
        nthread.join()
        return res
    # --- counterexamples: playback (parallel, one copied target dir per slot) + native replay
    slots = min(len(failed), 8)
    chunks = [failed[i::slots] for i in range(slots)]

    # first all copies (nothing may write into `target` meanwhile: slot 0 builds in it), then the playbacks
    def copy_slot(i):
        tdir = "%s-pb%d" % (target, i)
        shutil.rmtree(tdir, ignore_errors=True)
        for attempt in range(2):
            try:
                shutil.copytree(target, tdir, symlinks=True, ignore=shutil.ignore_patterns("incremental"))
                return
            except shutil.Error:
                shutil.rmtree(tdir, ignore_errors=True)
        shutil.copytree(target, tdir, symlinks=True, ignore=shutil.ignore_patterns("incremental"), ignore_dangling_symlinks=True)

    with ThreadPoolExecutor(max_workers=max(1, slots - 1)) as ex:
        list(ex.map(copy_slot, range(1, slots)))

    def pb_slot(i):
        tdir = target if i == 0 else "%s-pb%d" % (target, i)
        try:
            return cargo_kani(chunks[i], tdir, timeout_s, playback=True)[1]
        finally:
            if i != 0:
                shutil.rmtree(tdir, ignore_errors=True)

    with ThreadPoolExecutor(max_workers=slots) as ex:
        plogs = list(ex.map(pb_slot, range(slots)))
    plog = "\n".join(plogs)
    with open(os.path.join(C.WORK, "kani-%s-playback.log" % tag), "w") as f:
        f.write(plog)
    pb = parse_playback(plog)
    nthread.join()
    bins, err = native.get("bins"), native.get("err", "")
    if bins is None:
        out.inconc("native replay build failed: %s" % err[-400:])
        return res
    for n in failed:
        r = res[n]
        classes = {}
        for fc in r.failed:
            kind, key = classify(fc)
            classes.setdefault((kind, key), fc)
        # assertion models first, then cover models (Kani de-duplicates identical traces)
        models = sorted(pb.get(n, []), key=lambda m: m[0] == "cover")
        unwound = any(k == "unwind" for (k, _) in classes)
        if unwound and all(k == "unwind" for (k, _) in classes):
            out.obligation(n, "kani", "unwind-too-small", r.time_s, witness=False)
            out.inconc("harness %s: unwinding assertion failed (bound too small for the code as it is now)" % n)
            continue
        if unwound:
            # other checks failed too: a model that reproduces natively is a violation whatever the bound
            classes = {kk: v for kk, v in classes.items() if kk[0] != "unwind"}
            out.notes.append("%s: an unwinding assertion failed as well (some inputs need more iterations than the bound)" % n)
        reproduced = None
        tried = []
        for (_, d, vals) in models:
            rr = replay(bins, n, vals)
            tried.append({"vals": vals, "replay": rr})
            if any(o == "reproduced" for (o, _) in rr.values()):
                reproduced = (vals, rr)
                break
        r.playback = tried
        if reproduced is None:
            out.obligation(n, "kani", "cex-not-reproduced", r.time_s, witness=False,
                           failed=[list(x) for x in r.failed][:4])
            out.inconc("harness %s: solver model did not reproduce natively (%d models tried): %s"
                       % (n, len(models), [k for (_, k) in classes]))
            continue
        vals, rr = reproduced
        out.obligation(n, "kani", "violated", r.time_s, witness=True,
                       failed=[list(x) for x in r.failed][:4], model=vals, replay=rr, stubs=r.stubs)
        for (kind, key), fc in classes.items():
            if only_classes is not None and kind not in only_classes:
                out.notes.append("%s: failed check of class '%s' belongs to another property: %s" % (n, kind, fc[0][:80]))
                continue
            out.violation(C.Violation(
                key="%s|%s" % (n, key),
                what="%s: %s (%s)" % (n, fc[0].strip('"'), fc[3] or fc[1]),
                replay={"engine": "kani", "harness": n, "vals": vals,
                        "cmd": "cd /verif/kani && cargo run --offline --bin replay -- %s %s" % (n, ",".join(vals))},
                detail={"failed_checks": [list(x) for x in r.failed], "native": rr}))
    return res
