"""Engine R: native scenarios — concrete programs run through the real crate (dev + release)."""
import json
import os
import threading

from . import common as C

KANI_DIR = os.path.join(C.VERIF, "kani")
_lock = threading.Lock()
_bins = {}


def bins(tag):
    with _lock:
        if tag in _bins:
            return _bins[tag]
        target = os.path.join(C.WORK, "target-native-%s" % tag)
        outs = {}
        for prof, flag in (("debug", []), ("release", ["--release"])):
            rc, out = C.sh(["cargo", "build", "--offline", "--bin", "scenario", "--target-dir", target] + flag,
                           cwd=KANI_DIR, timeout=1800)
            if rc != 0:
                _bins[tag] = (None, out[-600:])
                return _bins[tag]
            outs[prof] = os.path.join(target, prof, "scenario")
        _bins[tag] = (outs, "")
        return _bins[tag]


def scenario(out, name, params, profiles=("debug", "release"), judge=None):
    """Run a named native scenario. -> (confirmed: bool, report dict)"""
    b, err = bins(out.prop)
    if b is None:
        return False, {"error": "native build failed: " + err}
    rep = {"_scenario": {"name": name, "params": params}}
    confirmed = False
    for prof in profiles:
        rc, o = C.sh([b[prof], name, json.dumps(params)], timeout=300)
        line = [l for l in o.splitlines() if l.startswith("SCENARIO ")]
        if not line:
            rep[prof] = {"outcome": "crashed", "rc": rc, "tail": o[-300:]}
            continue
        try:
            d = json.loads(line[-1][len("SCENARIO "):])
        except ValueError:
            d = {"outcome": "unparsable", "raw": line[-1][:300]}
        rep[prof] = d
        if judge is not None:
            try:
                if judge(d):
                    d["violates"] = True
            except Exception as e:      # a judge must never turn a crash into a pass or a violation
                d["judge_error"] = str(e)
        if d.get("violates"):
            confirmed = True
    return confirmed, rep
