#!/bin/bash
# Differential test of the machinery: with every "fix:" commit reverted (hooks kept) each check must report the
# recorded violations again; on the unchanged tree every check must exit 0.
cd /repo && git status --porcelain --untracked-files=no | grep -q . && { echo "repo dirty"; exit 3; }
for c in $(git log --format=%h --grep '^fix:'); do git show -R $c --format=; done > /verif/seeded/_pinned/unfix_all.patch
git apply /verif/seeded/_pinned/unfix_all.patch || exit 3
out=/verif/seeded/_pinned/REGRESSION.txt
echo "# every fix commit reverted (git apply seeded/_pinned/unfix_all.patch): expected exit 1 for each check that owns a fixed finding" > $out
for c in C01 C03 C07 C08 C09 C10 C12 C13 C15 C16 C17 C18 C19; do
  (cd /verif && ./check $c --tier quick > /verif/.work/regress-$c.log 2>&1; echo "$c exit=$? $(grep -c '^VIOLATION' /verif/.work/regress-$c.log) violations: $(grep '^VIOLATION' -A1 /verif/.work/regress-$c.log | grep what | sed -E 's/.*\[(.*)\]$/\1/' | tr '\n' ';' | cut -c1-400)") >> $out
done
git -C /repo checkout -- .
cat $out
