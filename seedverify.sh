#!/bin/bash
# Confirms a seeded change in a scratch worktree: compiles, existing suite passes with it, demo fails with / passes without.
# usage: seedverify.sh <seed id>...     results appended to /verif/seeded/<id>/verify.log ; summary line in /verif/seeded/VERIFY.txt
W=/tmp/seedverify
export CARGO_NET_OFFLINE=true CARGO_TARGET_DIR=$W/target
[ -d $W ] || git -C /repo worktree add -q --detach $W HEAD
for id in "$@"; do
  d=/verif/seeded/$id; log=$d/verify.log; : > $log
  cd $W && git checkout -q --detach $(git -C /repo rev-parse HEAD) && git checkout -- . && rm -f tests/seed_demo.rs
  git apply $d/patch.diff || { echo "$id: patch does not apply" >> /verif/seeded/VERIFY.txt; continue; }
  cargo test --workspace --no-fail-fast --offline >> $log 2>&1; suite=$?
  npass=$(grep -c "^test .* ok$" $log)
  cp $d/demo.rs tests/seed_demo.rs
  cargo test --offline --test seed_demo >> $log 2>&1; with=$?
  git checkout -- . 
  cargo test --offline --test seed_demo >> $log 2>&1; without=$?
  rm -f tests/seed_demo.rs
  echo "$id: suite_exit=$suite tests_ok=$npass demo_with_patch_exit=$with demo_without_patch_exit=$without" >> /verif/seeded/VERIFY.txt
done
