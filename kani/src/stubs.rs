//! Stubs used with `-Z stubbing`. Every stub is part of the claim and is listed
//! in the evidence file of the check that uses it.

use std::mem::MaybeUninit;

use ethnum::U256;

/// `uuid::Uuid::new_v4` -> fresh, pairwise-distinct ids from a counter.  The real
/// function reaches a SIMD RNG that makes Kani ICE; no property depends on the
/// id's value, only on freshness.
pub fn uuid_new_v4() -> uuid::Uuid {
    static mut COUNTER: u128 = 0x1000;
    unsafe {
        COUNTER += 1;
        uuid::Uuid::from_u128(COUNTER)
    }
}

/// `alloc::fmt::format` -> empty string (error-message construction is not the
/// subject of any harness).
pub fn fmt_format(_args: std::fmt::Arguments<'_>) -> String {
    String::new()
}

// ---------------------------------------------------------------------------------
// Uninterpreted-function replacement of ethnum's multiplier / divider cores.
//
// Each core is replaced by a *functionally consistent* nondeterministic function:
// the first call with a given argument tuple returns an arbitrary value, later
// calls with the same tuple return the same value (memo table).  The reference
// model in the harness calls the very same function, so an UNSAT answer holds for
// every interpretation of the core, in particular for ethnum's real one.
// ---------------------------------------------------------------------------------

pub const UF_SLOTS: usize = 6;

#[derive(Clone, Copy)]
pub struct UfEntry {
    pub used: bool,
    pub a: (u128, u128),
    pub b: (u128, u128),
    pub r: (u128, u128),
    pub r2: (u128, u128),
    pub flag: bool,
}

const EMPTY: UfEntry = UfEntry {
    used: false,
    a: (0, 0),
    b: (0, 0),
    r: (0, 0),
    r2: (0, 0),
    flag: false,
};

pub static mut MUL_TABLE: [UfEntry; UF_SLOTS] = [EMPTY; UF_SLOTS];
pub static mut DIV_TABLE: [UfEntry; UF_SLOTS] = [EMPTY; UF_SLOTS];
pub static mut MUL_CALLS: usize = 0;
pub static mut DIV_CALLS: usize = 0;

fn split(x: &U256) -> (u128, u128) {
    (*x.high(), *x.low())
}
fn join(x: (u128, u128)) -> U256 {
    U256::from_words(x.0, x.1)
}

#[cfg(kani)]
fn fresh() -> (u128, u128) {
    (kani::any(), kani::any())
}
#[cfg(not(kani))]
fn fresh() -> (u128, u128) {
    (0, 0)
}
#[cfg(kani)]
fn assume(c: bool) {
    kani::assume(c)
}
#[cfg(not(kani))]
fn assume(_c: bool) {}
#[cfg(kani)]
fn fresh_bool() -> bool {
    kani::any()
}
#[cfg(not(kani))]
fn fresh_bool() -> bool {
    false
}

/// UF for the full multiplication core: returns (low 256 bits, overflow flag);
/// commutative key.
pub fn uf_mul(a: &U256, b: &U256) -> (U256, bool) {
    let (a, b) = (split(a), split(b));
    unsafe {
        MUL_CALLS += 1;
        let mut i = 0;
        while i < UF_SLOTS {
            let e = MUL_TABLE[i];
            if !e.used {
                let r = fresh();
                let flag = fresh_bool();
                // Facts true of every correct multiplier (keeps the real core among the
                // admitted interpretations): annihilator and identity.
                let zero = (0u128, 0u128);
                let one = (0u128, 1u128);
                if a == zero || b == zero {
                    assume(r == zero && !flag);
                } else if a == one {
                    assume(r == b && !flag);
                } else if b == one {
                    assume(r == a && !flag);
                }
                MUL_TABLE[i] = UfEntry { used: true, a, b, r, r2: (0, 0), flag };
                return (join(r), flag);
            }
            if (e.a == a && e.b == b) || (e.a == b && e.b == a) {
                return (join(e.r), e.flag);
            }
            i += 1;
        }
    }
    // Table exhausted: harness bound too small. Make that visible.
    panic!("UF_MUL_TABLE_EXHAUSTED");
}

/// UF for the division core: returns (quotient, remainder) for a non-zero divisor.
pub fn uf_divmod(a: &U256, b: &U256) -> (U256, U256) {
    let (a, b) = (split(a), split(b));
    unsafe {
        DIV_CALLS += 1;
        let mut i = 0;
        while i < UF_SLOTS {
            let e = DIV_TABLE[i];
            if !e.used {
                let q = fresh();
                let r = fresh();
                // Facts true of every correct divider for b != 0: r < b, q <= a, and the
                // exact results for b == 1, a < b, a == b.
                let lt = |x: (u128, u128), y: (u128, u128)| x.0 < y.0 || (x.0 == y.0 && x.1 < y.1);
                assume(lt(r, b));
                assume(!lt(a, q));
                if b == (0, 1) {
                    assume(q == a && r == (0, 0));
                } else if lt(a, b) {
                    assume(q == (0, 0) && r == a);
                } else if a == b {
                    assume(q == (0, 1) && r == (0, 0));
                }
                DIV_TABLE[i] = UfEntry { used: true, a, b, r: q, r2: r, flag: false };
                return (join(q), join(r));
            }
            if e.a == a && e.b == b {
                return (join(e.r), join(e.r2));
            }
            i += 1;
        }
    }
    panic!("UF_DIV_TABLE_EXHAUSTED");
}

// --- stubs with ethnum's exact signatures -----------------------------------------

pub fn mul2(r: &mut U256, a: &U256) {
    let (v, _) = uf_mul(r, a);
    *r = v;
}
pub fn mul3(res: &mut MaybeUninit<U256>, a: &U256, b: &U256) {
    let (v, _) = uf_mul(a, b);
    res.write(v);
}
pub fn umulc(res: &mut MaybeUninit<U256>, a: &U256, b: &U256) -> bool {
    let (v, f) = uf_mul(a, b);
    res.write(v);
    f
}
pub fn udivmod4(
    res: &mut MaybeUninit<U256>,
    a: &U256,
    b: &U256,
    rem: Option<&mut MaybeUninit<U256>>,
) {
    let (q, r) = uf_divmod(a, b);
    res.write(q);
    if let Some(rem) = rem {
        rem.write(r);
    }
}

/// Exact replacement of ethnum's divider core for the ONE divisor `which_power_of_2` uses (2): quotient is
/// a logical shift right by one, remainder the lowest bit.  Any other divisor is a harness error.
pub fn udivmod4_by_two(
    res: &mut MaybeUninit<U256>,
    a: &U256,
    b: &U256,
    rem: Option<&mut MaybeUninit<U256>>,
) {
    assert!(*b.high() == 0 && *b.low() == 2, "UDIVMOD4_SPECIALISED_FOR_TWO");
    let (hi, lo) = (*a.high(), *a.low());
    res.write(U256::from_words(hi >> 1, (lo >> 1) | (hi << 127)));
    if let Some(rem) = rem {
        rem.write(U256::from_words(0, lo & 1));
    }
}

// --- exact multiplier for the ONE constant the hex parser multiplies by (16) ------------------------------------
fn times16(a: &U256, b: &U256) -> (U256, bool) {
    assert!(*b.high() == 0 && *b.low() == 16, "MUL_SPECIALISED_FOR_16");
    let (hi, lo) = (*a.high(), *a.low());
    (U256::from_words((hi << 4) | (lo >> 124), lo << 4), (hi >> 124) != 0)
}
pub fn mul2_x16(r: &mut U256, a: &U256) {
    let (v, _) = times16(r, a);
    *r = v;
}
pub fn mul3_x16(res: &mut MaybeUninit<U256>, a: &U256, b: &U256) {
    let (v, _) = times16(a, b);
    res.write(v);
}
pub fn umulc_x16(res: &mut MaybeUninit<U256>, a: &U256, b: &U256) -> bool {
    let (v, f) = times16(a, b);
    res.write(v);
    f
}
