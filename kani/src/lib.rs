//! Engine A: Kani proof harnesses over the real `storage-layout-extractor` crate
//! (path dependency on /repo; rebuilt from its current working tree on every run).
//!
//! Every harness body is a generic function over an input source (`src::Src`):
//! under `cargo kani` the source is `kani::any()`, natively (`bin/replay`) it is a
//! recorded solver model, so counterexamples are replayed through the very same
//! body against the real build (dev and release profiles).
#![allow(clippy::all)]
#![allow(dead_code, unused_imports, unused_macros, static_mut_refs)]

pub mod model;
pub mod src;
pub mod stubs;

pub mod h_codec;
pub mod h_known;
pub mod h_layout;
pub mod h_merge;
pub mod h_pushn;
pub mod h_vmap;

/// Registry: `<proof name> = <body path>, unwind N, stubs [from => to, ...];`
macro_rules! harnesses {
    ( $( $pname:ident = $body:expr, unwind $u:literal, stubs [ $( $sfrom:path => $sto:path ),* ] ; )* ) => {
        #[cfg(kani)]
        pub mod proofs {
            $(
                #[kani::proof]
                #[kani::unwind($u)]
                $( #[kani::stub($sfrom, $sto)] )*
                pub fn $pname() {
                    $body(&mut crate::src::KaniSrc);
                }
            )*
        }

        /// Native dispatch used by `bin/replay`.
        pub fn run_native(name: &str, s: &mut crate::src::ReplaySrc) -> bool {
            match name {
                $( stringify!($pname) => { $body(s); true } )*
                _ => false,
            }
        }

        pub const HARNESSES: &[&str] = &[ $( stringify!($pname) ),* ];
    };
}

include!("registry.rs");
