//! Engine A: Kani proof harnesses over the real `storage-layout-extractor` crate
//! (path dependency on /repo; rebuilt from its current working tree on every run).
//!
//! Every harness body is a generic function over an input source (`src::Src`):
//! under `cargo kani` the source is `kani::any()`, natively (`bin/replay`) it is a
//! recorded solver model, so counterexamples are replayed through the very same
//! body against the real build (dev and release profiles).
#![allow(clippy::all)]
#![allow(dead_code, unused_imports, unused_macros, static_mut_refs)]

pub mod model;
pub mod src;
pub mod stubs;

pub mod h_known;

/// Registry: `<proof name> = <body path>, unwind N, stubs [from => to, ...];`
macro_rules! harnesses {
    ( $( $pname:ident = $body:path, unwind $u:literal, stubs [ $( $sfrom:path => $sto:path ),* ] ; )* ) => {
        #[cfg(kani)]
        pub mod proofs {
            $(
                #[kani::proof]
                #[kani::unwind($u)]
                $( #[kani::stub($sfrom, $sto)] )*
                pub fn $pname() {
                    $body(&mut crate::src::KaniSrc);
                }
            )*
        }

        /// Native dispatch used by `bin/replay`.
        pub fn run_native(name: &str, s: &mut crate::src::ReplaySrc) -> bool {
            match name {
                $( stringify!($pname) => { $body(s); true } )*
                _ => false,
            }
        }

        pub const HARNESSES: &[&str] = &[ $( stringify!($pname) ),* ];
    };
}

harnesses! {
    known_add = crate::h_known::add, unwind 34, stubs [];
    known_sub = crate::h_known::sub, unwind 34, stubs [];
    known_and = crate::h_known::and, unwind 34, stubs [];
    known_or = crate::h_known::or, unwind 34, stubs [];
    known_xor = crate::h_known::xor, unwind 34, stubs [];
    known_not = crate::h_known::not, unwind 34, stubs [];
    known_lt = crate::h_known::lt, unwind 34, stubs [];
    known_gt = crate::h_known::gt, unwind 34, stubs [];
    known_slt = crate::h_known::slt, unwind 34, stubs [];
    known_sgt = crate::h_known::sgt, unwind 34, stubs [];
    known_eq = crate::h_known::eq, unwind 34, stubs [];
    known_is_zero = crate::h_known::is_zero, unwind 34, stubs [];
    known_shl = crate::h_known::shl, unwind 34, stubs [];
    known_shr = crate::h_known::shr, unwind 34, stubs [];
    known_sar = crate::h_known::sar, unwind 34, stubs [];
    known_mul = crate::h_known::mul, unwind 34, stubs [
        ethnum::intrinsics::mul2 => crate::stubs::mul2,
        ethnum::intrinsics::mul3 => crate::stubs::mul3,
        ethnum::intrinsics::umulc => crate::stubs::umulc
    ];
    known_div = crate::h_known::div, unwind 34, stubs [
        ethnum::intrinsics::udivmod4 => crate::stubs::udivmod4
    ];
    known_rem = crate::h_known::rem, unwind 34, stubs [
        ethnum::intrinsics::udivmod4 => crate::stubs::udivmod4
    ];
    known_sdiv = crate::h_known::sdiv, unwind 34, stubs [
        ethnum::intrinsics::udivmod4 => crate::stubs::udivmod4
    ];
    known_smod = crate::h_known::smod, unwind 34, stubs [
        ethnum::intrinsics::udivmod4 => crate::stubs::udivmod4
    ];
    known_exp_base2 = crate::h_known::exp_base2, unwind 34, stubs [];
    known_exp_base01 = crate::h_known::exp_base01, unwind 34, stubs [];
    known_exp_small_exponent = crate::h_known::exp_small_exponent, unwind 34, stubs [
        ethnum::intrinsics::mul2 => crate::stubs::mul2,
        ethnum::intrinsics::mul3 => crate::stubs::mul3,
        ethnum::intrinsics::umulc => crate::stubs::umulc
    ];
    known_conversions = crate::h_known::conversions, unwind 34, stubs [];
    known_twin = crate::h_known::twin, unwind 34, stubs [];
}
