//! C15 / C16: `tc::unification::merge` on the finite evidence domain D of the property:
//! Any, dynamic bytes, every word usage x widths {unknown, 8, 32, 160, 192, 256}
//! (fixed-width usages at their width), mappings / dynamic / fixed arrays over two
//! variables, and a conflict.  Kinds are concrete per harness (const generics), all
//! payloads are symbolic.
//!
//! Outcomes are compared up to the wording of conflict explanations (a conflict
//! compares by kind only) and up to the choice of representative among variables the
//! outcome equates (variables are canonicalised modulo the emitted equalities).

use std::mem::MaybeUninit;

use ethnum::U256;
use storage_layout_extractor::{
    data::vector_map::{FromUniqueIndex, ToUniqueIndex},
    tc::{
        expression::{TypeExpression, WordUse, TE},
        state::{type_variable::TypeVariable, TypeCheckerState},
        unification::{merge, Merge},
    },
};

use crate::src::Src;

pub const K_ANY: u8 = 0;
pub const K_BYTES: u8 = 1;
pub const K_WORD: u8 = 2;
pub const K_MAPPING: u8 = 3;
pub const K_DYN: u8 = 4;
pub const K_FIXED: u8 = 5;
pub const K_CONFLICT: u8 = 6;
pub const K_OTHER: u8 = 7; // Packed / Equal: outside D

pub fn tv(i: usize) -> TypeVariable {
    TypeVariable::from_index(i)
}

pub const WIDTHS: [Option<usize>; 6] = [None, Some(8), Some(32), Some(160), Some(192), Some(256)];

pub fn usage_of(code: u8) -> WordUse {
    match code {
        0 => WordUse::Bytes,
        1 => WordUse::Numeric,
        2 => WordUse::UnsignedNumeric,
        3 => WordUse::SignedNumeric,
        4 => WordUse::Bool,
        5 => WordUse::Address,
        6 => WordUse::Selector,
        _ => WordUse::Function,
    }
}

pub fn usage_code(u: WordUse) -> u8 {
    match u {
        WordUse::Bytes => 0,
        WordUse::Numeric => 1,
        WordUse::UnsignedNumeric => 2,
        WordUse::SignedNumeric => 3,
        WordUse::Bool => 4,
        WordUse::Address => 5,
        WordUse::Selector => 6,
        WordUse::Function => 7,
    }
}

pub fn width_code(w: Option<usize>) -> u16 {
    match w {
        None => 0,
        Some(x) => {
            if x < 0xffff {
                x as u16 + 1
            } else {
                0xffff
            }
        }
    }
}

/// The symbolic payload of an element of D (drawn once; elements are BUILT from it every time
/// they are needed instead of being cloned: `TypeExpression::clone` recurses through
/// `Vec<Box<TypeExpression>>`, which CBMC cannot bound cheaply).
#[derive(Clone, Copy)]
pub struct Payload {
    pub kind: u8,
    pub wc: u8,
    pub uc: u8,
    pub a: bool,
    pub b: bool,
    /// full 256-bit length of a fixed array (high, low)
    pub lh: u128,
    pub ll: u128,
}

pub fn payload<S: Src>(s: &mut S, kind: u8) -> Payload {
    let mut p = Payload { kind, wc: 0, uc: 0, a: false, b: false, lh: 0, ll: 0 };
    match kind {
        K_WORD => {
            p.wc = s.u8();
            p.uc = s.u8();
            s.assume(p.wc < 6 && p.uc < 8);
            // fixed-width usages occur at their own width only
            match usage_of(p.uc).size() {
                Some(sz) => s.assume(WIDTHS[p.wc as usize] == Some(sz)),
                None => {}
            }
        }
        K_MAPPING => {
            p.a = s.bool();
            p.b = s.bool();
        }
        K_FIXED => {
            p.a = s.bool();
            // lengths are arbitrary 256-bit words: arrays that agree in some of their bits only are different arrays
            p.lh = s.u128();
            p.ll = s.u128();
        }
        K_DYN => {
            p.a = s.bool();
        }
        _ => {}
    }
    p
}

/// The element of D described by `p`.
pub fn build(p: &Payload) -> TE {
    match p.kind {
        K_ANY => TE::Any,
        K_BYTES => TE::Bytes,
        K_WORD => TE::Word { width: WIDTHS[p.wc as usize], usage: usage_of(p.uc) },
        K_MAPPING => TE::Mapping { key: tv(1 + p.a as usize), value: tv(1 + p.b as usize) },
        K_DYN => TE::DynamicArray { element: tv(1 + p.a as usize) },
        K_FIXED => TE::FixedArray { element: tv(1 + p.a as usize), length: U256::from_words(p.lh, p.ll) },
        _ => TE::Conflict { conflicts: Vec::new(), reasons: Vec::new() },
    }
}

/// An element of D of the given (concrete) kind with symbolic payload.
pub fn elem<S: Src>(s: &mut S, kind: u8) -> TE {
    let p = payload(s, kind);
    build(&p)
}

/// Normal form of an outcome.
#[derive(Clone, Copy, PartialEq, Eq, Debug)]
pub struct N {
    pub kind: u8,
    pub width: u16,
    pub usage: u8,
    pub va: u8,
    pub vb: u8,
    pub len: (u128, u128),
    pub eq12: bool,
    pub extra: u8,
}

fn var_code(v: TypeVariable, eq12: bool) -> u8 {
    let i = v.index();
    if eq12 && (i == 1 || i == 2) {
        1
    } else if i < 250 {
        i as u8
    } else {
        250
    }
}

/// `eq12`: the equalities emitted along the way relate variable 1 and variable 2.
pub fn normal(e: &TE, eq12: bool, extra: u8) -> N {
    let mut n = N { kind: K_OTHER, width: 0, usage: 0, va: 0, vb: 0, len: (0, 0), eq12, extra };
    match e {
        TE::Any => n.kind = K_ANY,
        TE::Bytes => n.kind = K_BYTES,
        TE::Word { width, usage } => {
            n.kind = K_WORD;
            n.width = width_code(*width);
            n.usage = usage_code(*usage);
        }
        TE::Mapping { key, value } => {
            n.kind = K_MAPPING;
            n.va = var_code(*key, eq12);
            n.vb = var_code(*value, eq12);
        }
        TE::DynamicArray { element } => {
            n.kind = K_DYN;
            n.va = var_code(*element, eq12);
        }
        TE::FixedArray { element, length } => {
            n.kind = K_FIXED;
            n.va = var_code(*element, eq12);
            n.len = (*length.high(), *length.low());
        }
        TE::Conflict { .. } => n.kind = K_CONFLICT,
        _ => {}
    }
    n
}

/// Do the equalities of `m` relate variables 1 and 2 (directly; reflexive pairs are
/// ignored)?  `extra` counts anything outside {1,2} or any judgement / new variable,
/// which cannot occur on D.
pub fn eq_info(m: &Merge) -> (bool, u8) {
    let mut eq12 = false;
    let mut extra = 0u8;
    let mut i = 0;
    while i < m.equalities.len() {
        let e = m.equalities[i];
        let (l, r) = (e.left.index(), e.right.index());
        if (l == 1 && r == 2) || (l == 2 && r == 1) {
            eq12 = true;
        } else if l != r {
            extra = extra.saturating_add(1);
        }
        i += 1;
    }
    if !m.judgements.is_empty() || !m.ty_vars.is_empty() {
        extra = extra.saturating_add(100);
    }
    (eq12, extra)
}

#[cfg(kani)]
pub fn with_state<R>(f: impl FnOnce(&mut TypeCheckerState) -> R) -> R {
    // `merge` only touches the state in its `Packed` arms, which are outside D; the
    // state is never-dereferenced storage (a dereference would trip a pointer check).
    let mut st = MaybeUninit::<TypeCheckerState>::uninit();
    let state: &mut TypeCheckerState = unsafe { &mut *st.as_mut_ptr() };
    f(state)
}

#[cfg(not(kani))]
pub fn with_state<R>(f: impl FnOnce(&mut TypeCheckerState) -> R) -> R {
    let mut st = TypeCheckerState::empty();
    f(&mut st)
}

pub fn merge2(a: TE, b: TE, st: &mut TypeCheckerState) -> (TE, bool, u8) {
    let m = merge(a, b, tv(0), st);
    let (eq12, extra) = eq_info(&m);
    let Merge { expression, equalities, judgements, ty_vars } = m;
    std::mem::forget(equalities);
    std::mem::forget(judgements);
    std::mem::forget(ty_vars);
    (expression, eq12, extra)
}

/// S: merge(a, b) ~ merge(b, a) for every a of kind KA and b of kind KB.
pub fn symmetric<S: Src, const KA: u8, const KB: u8>(s: &mut S) {
    let a = payload(s, KA);
    let b = payload(s, KB);
    with_state(|st| {
        let (e1, q1, x1) = merge2(build(&a), build(&b), st);
        let (e2, q2, x2) = merge2(build(&b), build(&a), st);
        let n1 = normal(&e1, q1, x1);
        let n2 = normal(&e2, q2, x2);
        s.reached();
        assert!(
            !(n1.kind == K_CONFLICT && n2.kind != K_CONFLICT) && !(n2.kind == K_CONFLICT && n1.kind != K_CONFLICT),
            "C16 symmetry: one order conflicts, the other does not"
        );
        assert!(
            n1.kind == n2.kind || n1.kind == K_CONFLICT || n2.kind == K_CONFLICT,
            "C16 symmetry: the two orders give different non-conflict constructors"
        );
        assert!(
            n1.kind != n2.kind || n1.kind == K_CONFLICT || n1 == n2,
            "C16 symmetry: same constructor but different payload or equalities"
        );
        std::mem::forget(e1);
        std::mem::forget(e2);
    });
}

/// Rebuild an intermediate result with a *concrete* kind on each path and continue
/// with `k`.  CBMC does not propagate a heap-free but symbolic enum discriminant, so
/// feeding `merge`'s result straight into the next `merge` makes it explore every arm
/// (including the `Packed` ones) — measured > 600 s.  Splitting on the outcome class
/// here keeps every `merge` call on a concrete constructor.  The rebuilt value equals
/// the original up to the payload of a conflict (which C16 ignores).
fn continue_with<R>(x: &TE, mut k: impl FnMut(TE) -> R) -> Option<R> {
    Some(match x {
        TE::Any => k(TE::Any),
        TE::Bytes => k(TE::Bytes),
        TE::Word { width, usage } => k(TE::Word { width: *width, usage: *usage }),
        TE::Mapping { key, value } => k(TE::Mapping { key: *key, value: *value }),
        TE::DynamicArray { element } => k(TE::DynamicArray { element: *element }),
        TE::FixedArray { element, length } => {
            k(TE::FixedArray { element: *element, length: *length })
        }
        TE::Conflict { .. } => k(TE::Conflict { conflicts: Vec::new(), reasons: Vec::new() }),
        _ => return None,
    })
}

/// T: merge(merge(a,b),c) ~ merge(a,merge(b,c)).
pub fn associative<S: Src, const KA: u8, const KB: u8, const KC: u8>(s: &mut S) {
    let a = payload(s, KA);
    let b = payload(s, KB);
    let c = payload(s, KC);
    with_state(|st| {
        let (ab, q1, x1) = merge2(build(&a), build(&b), st);
        let l = continue_with(&ab, |ab| {
            let (ab_c, q2, x2) = merge2(ab, build(&c), st);
            let n = normal(&ab_c, q1 || q2, x1.saturating_add(x2));
            std::mem::forget(ab_c);
            n
        });
        let (bc, q3, x3) = merge2(build(&b), build(&c), st);
        let r = continue_with(&bc, |bc| {
            let (a_bc, q4, x4) = merge2(build(&a), bc, st);
            let n = normal(&a_bc, q3 || q4, x3.saturating_add(x4));
            std::mem::forget(a_bc);
            n
        });
        s.reached();
        assert!(l.is_some() && r.is_some(), "C16 associativity: intermediate result left the domain");
        let (l, r) = (l.unwrap(), r.unwrap());
        // One assertion per way of disagreeing, so that findings are identified by class.
        assert!(
            !(l.kind == K_CONFLICT && r.kind != K_CONFLICT),
            "C16 associativity: (a+b)+c conflicts but a+(b+c) does not"
        );
        assert!(
            !(r.kind == K_CONFLICT && l.kind != K_CONFLICT),
            "C16 associativity: a+(b+c) conflicts but (a+b)+c does not"
        );
        assert!(
            l.kind == r.kind || l.kind == K_CONFLICT || r.kind == K_CONFLICT,
            "C16 associativity: the two groupings give different non-conflict constructors"
        );
        assert!(
            l.kind != r.kind || l.kind == K_CONFLICT || (l.eq12 == r.eq12 && l.extra == r.extra),
            "C16 associativity: same constructor but different equalities emitted"
        );
        assert!(
            l.kind != r.kind || l.kind == K_CONFLICT || l.eq12 != r.eq12 || l.extra != r.extra || l == r,
            "C16 associativity: same constructor and equalities but different payload"
        );
        std::mem::forget(ab);
        std::mem::forget(bc);
    });
}

/// Replacement for `TypeExpression::conflict_with` under Kani: a conflict without
/// payload.  Conflicts compare by kind only in C15/C16, and `merge` never inspects a
/// conflict's payload, so the outcome classes are unchanged; the real function's
/// allocation-heavy payload gathering is what made nested merges intractable.
pub fn conflict_with_stub<R: Into<String>>(this: TE, other: TE, _reason: R) -> TE {
    std::mem::forget(this);
    std::mem::forget(other);
    TE::Conflict { conflicts: Vec::new(), reasons: Vec::new() }
}

/// Vacuity twin.
pub fn twin<S: Src>(s: &mut S) {
    let a = elem(s, K_WORD);
    let b = elem(s, K_DYN);
    with_state(|st| {
        let (e1, q1, x1) = merge2(a, b, st);
        let _ = normal(&e1, q1, x1);
        s.reached();
        assert!(false, "TWIN");
    });
}

// =========================================================================================
// C15: compatible evidence joins to its most specific type; contradictions conflict.
// Obligations are limited to the classes the property statement names.
// =========================================================================================

/// Reference order on usages: `Some(join)` for the pairs the statement calls compatible
/// (raw bytes below everything; numeric below unsigned / signed / address; unsigned below
/// address; equal usages), `None` where no obligation is imposed.
fn usage_join(a: u8, b: u8) -> Option<u8> {
    const BYTES: u8 = 0;
    const NUM: u8 = 1;
    const UNS: u8 = 2;
    const SIG: u8 = 3;
    const ADDR: u8 = 5;
    if a == b {
        return Some(a);
    }
    if a == BYTES {
        return Some(b);
    }
    if b == BYTES {
        return Some(a);
    }
    let up = |lo: u8, hi: u8| (lo == NUM && (hi == UNS || hi == SIG || hi == ADDR)) || (lo == UNS && hi == ADDR);
    if up(a, b) {
        return Some(b);
    }
    if up(b, a) {
        return Some(a);
    }
    None
}

/// Usage pairs the statement calls plainly incompatible: signed against unsigned or
/// address, and two different special-purpose usages (bool/address/selector/function).
fn usage_contradict(a: u8, b: u8) -> bool {
    const UNS: u8 = 2;
    const SIG: u8 = 3;
    const ADDR: u8 = 5;
    let special = |x: u8| x >= 4;
    (a == SIG && (b == UNS || b == ADDR)) || (b == SIG && (a == UNS || a == ADDR)) || (special(a) && special(b) && a != b)
}

/// Word x Word, both orders decided at once (a, b symbolic over all of D's words).
/// A word of D whose fixed-size usage (bool, address, selector, function) may also come WITHOUT a known width: evidence
/// of a usage alone is what the inference rules emit before any width is known.
fn word_any_width<S: Src>(s: &mut S) -> TE {
    let (wc, uc) = (s.u8(), s.u8());
    s.assume(wc < 6 && uc < 8);
    match usage_of(uc).size() {
        Some(sz) => s.assume(WIDTHS[wc as usize] == Some(sz) || WIDTHS[wc as usize].is_none()),
        None => {}
    }
    TE::Word { width: WIDTHS[wc as usize], usage: usage_of(uc) }
}

pub fn join_word_word<S: Src>(s: &mut S) {
    let a = word_any_width(s);
    let b = word_any_width(s);
    let (wa, ua, wb, ub) = match (&a, &b) {
        (TE::Word { width: wa, usage: ua }, TE::Word { width: wb, usage: ub }) => {
            (width_code(*wa), usage_code(*ua), width_code(*wb), usage_code(*ub))
        }
        _ => return,
    };
    with_state(|st| {
        let (e, q, x) = merge2(a, b, st);
        let n = normal(&e, q, x);
        s.reached();
        let widths_agree = wa == wb || wa == 0 || wb == 0;
        if widths_agree {
            if let Some(u) = usage_join(ua, ub) {
                let w = if wa != 0 { wa } else { wb };
                assert!(n.kind != K_CONFLICT, "C15 join: compatible word evidence reported as a conflict");
                assert!(n.kind == K_WORD && n.width == w, "C15 join: compatible words do not keep the known width");
                assert!(n.kind == K_WORD && n.usage == u, "C15 join: compatible words do not keep the more specific usage");
                assert!(!n.eq12 && n.extra == 0, "C15 join: word join emitted equalities or judgements");
            }
        }
        if wa != 0 && wb != 0 && wa != wb {
            assert!(n.kind == K_CONFLICT, "C15 contradiction: two different known widths do not conflict");
        }
        if usage_contradict(ua, ub) {
            assert!(n.kind == K_CONFLICT, "C15 contradiction: incompatible usages do not conflict");
        }
        std::mem::forget(e);
    });
}

/// Equal constructors keep their structure and emit exactly their component equalities.
pub fn join_same_constructor<S: Src, const K: u8>(s: &mut S) {
    let pa = payload(s, K);
    let pb = payload(s, K);
    let (a, b) = (build(&pa), build(&pb));
    with_state(|st| {
        let m = merge(build(&pa), build(&pb), tv(0), st);
        s.reached();
        assert!(m.judgements.is_empty() && m.ty_vars.is_empty(), "C15 join: same-constructor join emitted judgements or variables");
        match (&a, &b, &m.expression) {
            (TE::Mapping { key: k1, value: v1 }, TE::Mapping { key: k2, value: v2 }, TE::Mapping { key, value }) => {
                assert!((*key == *k1 || *key == *k2) && (*value == *v1 || *value == *v2), "C15 join: mapping join does not keep its components");
                if a != b {
                    let mut has_k = k1 == k2;
                    let mut has_v = v1 == v2;
                    let mut i = 0;
                    while i < m.equalities.len() {
                        let e = m.equalities[i];
                        let is_k = (e.left == *k1 && e.right == *k2) || (e.left == *k2 && e.right == *k1);
                        let is_v = (e.left == *v1 && e.right == *v2) || (e.left == *v2 && e.right == *v1);
                        assert!(is_k || is_v, "C15 join: mapping join emitted an equality that is not a component pair");
                        has_k |= is_k;
                        has_v |= is_v;
                        i += 1;
                    }
                    assert!(has_k && has_v, "C15 join: mapping join does not unify its key and value components");
                }
            }
            (TE::DynamicArray { element: e1 }, TE::DynamicArray { element: e2 }, TE::DynamicArray { element }) => {
                assert!(*element == *e1 || *element == *e2, "C15 join: dynamic array join does not keep its element");
                if a != b {
                    assert!(m.equalities.len() == 1, "C15 join: dynamic array join must emit exactly its element equality");
                    let e = m.equalities[0];
                    assert!((e.left == *e1 && e.right == *e2) || (e.left == *e2 && e.right == *e1), "C15 join: dynamic array join emitted a wrong equality");
                }
            }
            (
                TE::FixedArray { element: e1, length: l1 },
                TE::FixedArray { element: e2, length: l2 },
                TE::FixedArray { element, length },
            ) => {
                assert!(*l1.low() == *l2.low() && *l1.high() == *l2.high(), "C15 join: fixed arrays of different lengths joined");
                assert!((*element == *e1 || *element == *e2) && *length.low() == *l1.low() && *length.high() == *l1.high(), "C15 join: fixed array join does not keep element / length");
                if a != b {
                    assert!(m.equalities.len() == 1, "C15 join: fixed array join must emit exactly its element equality");
                    let e = m.equalities[0];
                    assert!((e.left == *e1 && e.right == *e2) || (e.left == *e2 && e.right == *e1), "C15 join: fixed array join emitted a wrong equality");
                }
            }
            (TE::FixedArray { length: l1, .. }, TE::FixedArray { length: l2, .. }, other) => {
                // different lengths: the statement names no obligation; equal lengths must join
                assert!(*l1.low() != *l2.low() || *l1.high() != *l2.high(), "C15 join: equal-length fixed arrays did not join to a fixed array");
                let _ = other;
            }
            _ => assert!(false, "C15 join: equal constructors did not keep their structure"),
        }
        std::mem::forget(m);
    });
}

/// `Any` is the identity (both orders), for every x in D of kind K.
pub fn join_any_identity<S: Src, const K: u8>(s: &mut S) {
    let px = payload(s, K);
    with_state(|st| {
        let x = build(&px);
        let nx = normal(&x, false, 0);
        std::mem::forget(x);
        let (e1, q1, x1) = merge2(TE::Any, build(&px), st);
        let (e2, q2, x2) = merge2(build(&px), TE::Any, st);
        s.reached();
        assert!(normal(&e1, q1, x1) == nx, "C15 join: merge(Any, x) is not x");
        assert!(normal(&e2, q2, x2) == nx, "C15 join: merge(x, Any) is not x");
        std::mem::forget(e1);
        std::mem::forget(e2);
    });
}

/// Plain contradictions across constructors: a mapping against an array (dynamic or
/// fixed) or against a sized word, in both orders.
pub fn join_contradictions<S: Src, const K: u8>(s: &mut S) {
    let pm = payload(s, K_MAPPING);
    let po = payload(s, K);
    if K == K_WORD {
        s.assume(po.wc != 0);
    }
    with_state(|st| {
        let (e1, _, _) = merge2(build(&pm), build(&po), st);
        let (e2, _, _) = merge2(build(&po), build(&pm), st);
        s.reached();
        assert!(matches!(e1, TE::Conflict { .. }), "C15 contradiction: mapping against array / sized word does not conflict");
        assert!(matches!(e2, TE::Conflict { .. }), "C15 contradiction: array / sized word against mapping does not conflict");
        std::mem::forget(e1);
        std::mem::forget(e2);
    });
}
