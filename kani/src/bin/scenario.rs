//! Engine R: named native scenarios — concrete programs / calls against the real crate,
//! used to confirm (or refute) solver models that describe internal states.
//!
//! usage: scenario <name> '<json params>'
//! prints: SCENARIO {"violates": bool, ...observations}

use std::panic;

use storage_layout_extractor::{
    extractor::{
        chain::{version::EthereumVersion, Chain},
        contract::Contract,
    },
    tc,
    disassembly::InstructionStream,
    vm::{
        value::{known::KnownWord, Provenance, RuntimeBoxedVal, RSV, RSVD},
        Config, VM,
    },
    watchdog::LazyWatchdog,
};

fn param(json: &str, key: &str) -> Option<u64> {
    // tiny extractor for flat {"key": number} objects (no serde_json at run time)
    let k = format!("\"{key}\"");
    let i = json.find(&k)?;
    let rest = &json[i + k.len()..];
    let rest = rest.trim_start().strip_prefix(':')?.trim_start();
    let end = rest.find(|c: char| !c.is_ascii_digit()).unwrap_or(rest.len());
    rest[..end].parse().ok()
}

fn hex_param(json: &str, key: &str) -> Option<Vec<u8>> {
    let k = format!("\"{key}\"");
    let i = json.find(&k)?;
    let rest = &json[i + k.len()..];
    let rest = rest.trim_start().strip_prefix(':')?.trim_start().strip_prefix('"')?;
    let end = rest.find('"')?;
    let h = &rest[..end];
    Some((0..h.len() / 2).map(|i| u8::from_str_radix(&h[2 * i..2 * i + 2], 16).unwrap()).collect())
}

/// A loop whose head is a JUMPDEST reached by fall-through and re-entered by JUMPI:
/// JUMPDEST PUSH1 1 PUSH1 0 JUMPI STOP.  Reports the largest per-thread visit count.
fn fork_first_visit(p: &str) -> String {
    let max_iter = param(p, "max_iterations").unwrap_or(2) as usize;
    let code = [0x5bu8, 0x60, 0x01, 0x60, 0x00, 0x57, 0x00];
    let mut config = Config::default();
    config.maximum_iterations_per_opcode = max_iter;
    let stream = InstructionStream::try_from(code.as_slice()).expect("disassembles");
    let mut vm = VM::new(stream, config, LazyWatchdog.in_rc()).expect("vm");
    let _ = vm.execute();
    let mut worst = 0usize;
    let mut threads = 0usize;
    for st in vm.stored_states() {
        threads += 1;
        for ip in 0..code.len() as u32 {
            let c = st.visited_instructions().visit_count(ip).unwrap_or(0);
            worst = worst.max(c);
        }
    }
    format!(
        "{{\"violates\": {}, \"max_iterations\": {}, \"worst_visit_count\": {}, \"threads\": {}, \"code\": \"5b600160005700\"}}",
        worst > max_iter, max_iter, worst, threads
    )
}

/// Every program of 2 and of 3 blocks where a block is `JUMPDEST` followed by a conditional jump to any block, an
/// unconditional jump to any block, or nothing (fall through), closed by STOP: under iteration limits 1..=max no stored
/// state may count more than the limit for any offset.  (Replay corpus for the solver's fork / loop-guard models.)
fn loop_family_visits(p: &str) -> String {
    let max_limit = param(p, "max_iterations").unwrap_or(3).clamp(1, 4) as usize;
    let mut bad = String::new();
    let mut programs = 0usize;
    let mut worst_over = 0usize;
    'outer: for blocks in 2..=3usize {
        let kinds = 2 * blocks + 1;
        let total = kinds.pow(blocks as u32);
        for id in 0..total {
            // decode one terminator per block: 0 = fall through, 1..=blocks = JUMPI to block k-1, rest = JUMP
            let mut terms = Vec::new();
            let mut x = id;
            for _ in 0..blocks {
                terms.push(x % kinds);
                x /= kinds;
            }
            let size = |t: usize| if t == 0 { 1 } else if t <= blocks { 5 } else { 4 };
            let mut offs = Vec::new();
            let mut at = 0usize;
            for t in &terms {
                offs.push(at);
                at += size(*t);
            }
            let mut code = Vec::new();
            for t in &terms {
                code.push(0x5b);
                if *t == 0 {
                    continue;
                }
                if *t <= blocks {
                    code.extend_from_slice(&[0x36, 0x60, offs[*t - 1] as u8, 0x57]);
                } else {
                    code.extend_from_slice(&[0x60, offs[*t - 1 - blocks] as u8, 0x56]);
                }
            }
            code.push(0x00);
            programs += 1;
            for limit in 1..=max_limit {
                let mut config = Config::default();
                config.maximum_iterations_per_opcode = limit;
                let stream = InstructionStream::try_from(code.as_slice()).expect("disassembles");
                let mut vm = VM::new(stream, config, LazyWatchdog.in_rc()).expect("vm");
                let _ = vm.execute();
                for st in vm.stored_states() {
                    for ip in 0..code.len() as u32 {
                        let c = st.visited_instructions().visit_count(ip).unwrap_or(0);
                        if c > limit {
                            worst_over = worst_over.max(c - limit);
                            if bad.is_empty() {
                                bad = format!("code {} limit {} offset {} executed {} times on one path", hex(&code), limit, ip, c);
                            }
                            break 'outer;
                        }
                    }
                }
            }
        }
    }
    format!("{{\"violates\": {}, \"programs\": {}, \"max_limit\": {}, \"problem\": \"{}\"}}", !bad.is_empty(), programs, max_limit, bad)
}

/// Runs `code` in a fresh VM (strict or permissive) and returns, per offset, the largest visit
/// count seen in any stored state, plus whether execute() returned Ok.
fn run_vm(code: &[u8], permissive: bool) -> (Vec<usize>, bool, usize) {
    let mut config = Config::default();
    config.permissive_errors = permissive;
    let stream = InstructionStream::try_from(code).expect("disassembles");
    let mut vm = VM::new(stream, config, LazyWatchdog.in_rc()).expect("vm");
    let ok = vm.execute().is_ok();
    let mut visits = vec![0usize; code.len()];
    for st in vm.stored_states() {
        for ip in 0..code.len() as u32 {
            let c = st.visited_instructions().visit_count(ip).unwrap_or(0);
            visits[ip as usize] = visits[ip as usize].max(c);
        }
    }
    (visits, ok, vm.stored_states().len())
}

fn hex(b: &[u8]) -> String {
    b.iter().map(|x| format!("{x:02x}")).collect()
}

/// JUMP to an arbitrary 256-bit target T (PUSH32 T JUMP) in a program that has a JUMPDEST followed by an SSTORE
/// at offset (T mod 2^16) when that offset is small enough (>= 35, < 4096); otherwise at 40.  The EVM rejects the
/// jump whenever T itself is not that offset; executing the SSTORE means the target was truncated.
fn jump_target_bits(p: &str) -> String {
    let mut t = [0u8; 32];
    if let Some(h) = hex_param(p, "target_hex") {
        for (i, b) in h.iter().rev().take(32).enumerate() {
            t[31 - i] = *b;
        }
    } else {
        let high = (param(p, "high").unwrap_or(1) & 0xff) as u8;
        t[27] = high;
        t[31] = 40;
    }
    // keep the model's high bits (what the validator must not ignore), aim the low 32 bits at a real JUMPDEST
    let dest = 40usize;
    let high_nonzero = t[..28].iter().any(|b| *b != 0);
    t[28] = 0;
    t[29] = 0;
    t[30] = 0;
    t[31] = dest as u8;
    let exact = !high_nonzero;
    let mut code = vec![0x7fu8];
    code.extend_from_slice(&t);
    code.push(0x56); // JUMP at 33
    code.push(0x00); // STOP at 34
    while code.len() < dest {
        code.push(0x00);
    }
    code.push(0x5b); // JUMPDEST at dest
    code.extend_from_slice(&[0x60, 1, 0x60, 7, 0x55, 0x00]);
    let (visits, ok, states) = run_vm(&code, true);
    let sstore = dest + 5;
    format!(
        "{{\"violates\": {}, \"sstore_visits\": {}, \"execute_ok\": {}, \"states\": {}, \"dest\": {}, \"target\": \"{}\"}}",
        !exact && visits[sstore] > 0, visits[sstore], ok, states, dest, hex(&t)
    )
}

/// PUSH1 0 PUSH1 0 <halting opcode> PUSH1 1 PUSH1 7 SSTORE STOP: nothing after the halting opcode may execute.
fn halting_opcode(p: &str) -> String {
    let op = (param(p, "opcode").unwrap_or(0) & 0xff) as u8;
    let code = [0x60u8, 0, 0x60, 0, op, 0x60, 1, 0x60, 7, 0x55, 0x00];
    let (visits, ok, states) = run_vm(&code, false);
    format!(
        "{{\"violates\": {}, \"after_visits\": {}, \"sstore_visits\": {}, \"execute_ok\": {}, \"states\": {}, \"code\": \"{}\"}}",
        visits[5] > 0 || visits[9] > 0, visits[5], visits[9], ok, states, hex(&code)
    )
}

/// A conditional / unconditional jump to a non-existent target in permissive mode must not, by itself,
/// make execution fail:  PUSH1 1 PUSH1 0xff JUMPI STOP   /   PUSH1 0xff JUMP.
fn permissive_bad_jump(p: &str) -> String {
    let jumpi = param(p, "jumpi").unwrap_or(1) == 1;
    let code: Vec<u8> = if jumpi { vec![0x60, 1, 0x60, 0xff, 0x57, 0x00] } else { vec![0x60, 0xff, 0x56] };
    let (_, ok_permissive, _) = run_vm(&code, true);
    let (_, ok_strict, _) = run_vm(&code, false);
    format!(
        "{{\"violates\": {}, \"permissive_ok\": {}, \"strict_ok\": {}, \"code\": \"{}\"}}",
        !ok_permissive || ok_strict, ok_permissive, ok_strict, hex(&code)
    )
}

/// Disassemble the given bytes through the public API and compare the re-encoding.
fn disassemble_roundtrip(p: &str) -> String {
    let mut code = hex_param(p, "hex").unwrap_or_else(|| vec![0]);
    if let Some(n) = param(p, "zeros") {
        code = vec![0u8; n as usize];
    }
    let r = InstructionStream::try_from(code.as_slice());
    match r {
        Ok(s) => {
            let back = s.as_bytecode();
            format!(
                "{{\"violates\": {}, \"ok\": true, \"len\": {}, \"entries\": {}, \"code\": \"{}\"}}",
                back != code || s.len() != code.len(), code.len(), s.len(), hex(&code[..code.len().min(40)])
            )
        }
        Err(e) => format!(
            "{{\"violates\": {}, \"ok\": false, \"error\": \"{}\", \"code\": \"{}\"}}",
            !code.is_empty(), format!("{e:?}").replace('"', "'"), hex(&code[..code.len().min(40)])
        ),
    }
}

/// Reference classification of every offset (a 15-line disassembler written from the Yellow Paper): the start of a
/// complete PUSHn must be a PushN carrying exactly its n immediates, its immediates must be Nops, a PUSH cut short and
/// its surviving immediates must be Invalid, every other byte must be the opcode that encodes to that byte.
fn disassembly_matches_reference(code: &[u8]) -> Option<String> {
    use storage_layout_extractor::opcode::{control::{Invalid, Nop}, memory::PushN};
    let s = match InstructionStream::try_from(code) {
        Ok(s) => s,
        Err(e) => return if code.is_empty() || code.len() > 24576 { None } else { Some(format!("rejected: {e:?}").replace('"', "'")) },
    };
    if s.len() != code.len() || s.as_bytecode() != code {
        return Some("length or re-encoding differs".to_string());
    }
    let t = s.new_thread(0).expect("thread");
    let mut i = 0usize;
    while i < code.len() {
        let b = code[i];
        let op = t.instruction(i as u32).expect("entry");
        let any = op.as_ref().as_any();
        if (0x60..=0x7f).contains(&b) {
            let n = (b - 0x5f) as usize;
            if i + n < code.len() {
                match any.downcast_ref::<PushN>() {
                    Some(p) if p.byte_size() as usize == n && p.bytes_data() == &code[i + 1..=i + n] => {}
                    _ => return Some(format!("offset {i}: complete PUSH{n} decoded as {}", op.as_text_code())),
                }
                for j in i + 1..=i + n {
                    let im = t.instruction(j as u32).expect("entry");
                    if im.as_ref().as_any().downcast_ref::<Nop>().is_none() {
                        return Some(format!("offset {j}: immediate of PUSH{n} decoded as {}", im.as_text_code()));
                    }
                }
                i += n + 1;
                continue;
            }
            for j in i..code.len() {
                let im = t.instruction(j as u32).expect("entry");
                if im.as_ref().as_any().downcast_ref::<Invalid>().is_none() {
                    return Some(format!("offset {j}: part of a PUSH{n} cut short decoded as {}", im.as_text_code()));
                }
            }
            break;
        }
        if op.as_byte() != b {
            return Some(format!("offset {i}: byte {b:#x} decoded as {}", op.as_text_code()));
        }
        i += 1;
    }
    None
}

/// The reference comparison on the given code and on the family "prefix, PUSHn, k of its n immediates" for every n and
/// every k = 0..=n (+ one trailing byte), with a JUMPDEST-valued immediate so that a mis-decoded immediate is visible.
fn disassemble_reference(p: &str) -> String {
    let mut problems = Vec::new();
    let mut programs = 0usize;
    if let Some(code) = hex_param(p, "hex") {
        programs += 1;
        if let Some(m) = disassembly_matches_reference(&code) {
            problems.push(format!("{}: {m}", hex(&code[..code.len().min(40)])));
        }
    }
    for n in 1..=32usize {
        for k in 0..=n + 1 {
            for prefix in [&[][..], &[0x5b][..], &[0x60, 0x5b][..]] {
                let mut code = prefix.to_vec();
                code.push(0x5f + n as u8);
                code.extend(std::iter::repeat(0x5b).take(k.min(n)));
                if k == n + 1 {
                    code.push(0x00);
                }
                programs += 1;
                if problems.len() < 3 {
                    if let Some(m) = disassembly_matches_reference(&code) {
                        problems.push(format!("{}: {m}", hex(&code)));
                    }
                }
            }
        }
    }
    format!("{{\"violates\": {}, \"programs\": {}, \"problems\": \"{}\"}}", !problems.is_empty(), programs, problems.join("; "))
}

/// analyze() on a family of programs that mask slot 0 singly and nested (two masks applied one after the other) and
/// store the pieces elsewhere, plus stores to slots given in descending order: every returned layout must be ordered by
/// (index, offset) and keep every entry inside its slot.
fn layout_family_sorted(p: &str) -> String {
    // check = 1: ordering only (default); check = 2: entries inside the slot only
    let check = param(p, "check").unwrap_or(1);
    let masks: [(usize, usize); 5] = [(0, 128), (128, 256), (192, 256), (0, 64), (64, 192)];
    let mask = |lo: usize, hi: usize| {
        let mut out = [0u8; 32];
        for bit in lo..hi {
            out[31 - bit / 8] |= 1 << (bit % 8);
        }
        out
    };
    let mut programs = Vec::new();
    for a in 0..masks.len() {
        for b in 0..masks.len() {
            for c in 0..masks.len() {
                let mut code = vec![0x60, 0x00, 0x54, 0x7f];
                code.extend_from_slice(&mask(masks[a].0, masks[a].1));
                code.extend_from_slice(&[0x16, 0x7f]);
                code.extend_from_slice(&mask(masks[b].0, masks[b].1));
                code.extend_from_slice(&[0x16, 0x60, 0x01, 0x55, 0x60, 0x00, 0x54, 0x7f]);
                code.extend_from_slice(&mask(masks[c].0, masks[c].1));
                code.extend_from_slice(&[0x16, 0x60, 0x02, 0x55, 0x00]);
                programs.push(code);
            }
        }
    }
    // check = 3: a masked word multiplied by a power of two (or shifted left) and stored: `2^k * (sload(0) & mask)`
    if check == 3 {
        programs.clear();
        for k in [8usize, 128, 200, 248, 250, 255] {
            for (lo, hi) in [(0usize, 8usize), (0, 64), (0, 128)] {
                for use_mul in [true, false] {
                    let mut code = vec![0x7f];
                    code.extend_from_slice(&mask(lo, hi));
                    code.extend_from_slice(&[0x5f, 0x54, 0x16]);
                    if use_mul {
                        code.push(0x7f);
                        code.extend_from_slice(&mask(k, k + 1));
                        code.push(0x02);
                    } else {
                        code.extend_from_slice(&[0x60, k as u8, 0x1b]);
                    }
                    code.extend_from_slice(&[0x60, 0x01, 0x55, 0x00]);
                    programs.push(code);
                }
            }
        }
    }
    // stores to slots in descending / mixed order, including indices that differ only in high bits
    let mut code = Vec::new();
    for hi in [3u8, 0, 2, 1] {
        code.extend_from_slice(&[0x60, 0x01, 0x7f]);
        let mut ix = [0u8; 32];
        ix[0] = hi;
        ix[31] = 9 - hi;
        code.extend_from_slice(&ix);
        code.push(0x55);
    }
    code.push(0x00);
    programs.push(code);
    let mut bad = String::new();
    let mut analysed = 0usize;
    for code in &programs {
        if !bad.is_empty() {
            break;
        }
        for _ in 0..2 {
            let contract = Contract::new(code.clone(), Chain::Ethereum { version: EthereumVersion::Shanghai });
            let r = storage_layout_extractor::new(contract, Config::default(), tc::Config::default(), LazyWatchdog.in_rc()).analyze();
            if let Ok(layout) = r {
                analysed += 1;
                let keys: Vec<(ethnum::U256, usize)> = layout.slots().iter().map(|s| (s.index.0, s.offset)).collect();
                let mut sorted = keys.clone();
                sorted.sort();
                if check == 1 && keys != sorted && bad.is_empty() {
                    bad = format!("code {}: layout keys {:?} are not ordered by (index, offset)", hex(code), keys.iter().map(|k| format!("{:#x}@{}", k.0, k.1)).collect::<Vec<_>>());
                }
                let ends_outside = |s: &storage_layout_extractor::layout::StorageSlot| {
                    use storage_layout_extractor::tc::abi::AbiType as T;
                    let width = match &s.typ {
                        T::Number { size: Some(n) } | T::UInt { size: Some(n) } | T::Int { size: Some(n) } | T::Bits { length: Some(n) } => Some(*n),
                        T::Bytes { length: Some(n) } => n.checked_mul(8),
                        T::Address => Some(160),
                        T::Selector => Some(32),
                        T::Function => Some(192),
                        T::Bool => Some(8),
                        _ => None,
                    };
                    s.offset >= 256 || width.map_or(false, |w| s.offset.checked_add(w).map_or(true, |e| e > 256))
                };
                if check == 3 && layout.slots().iter().any(ends_outside) && bad.is_empty() {
                    bad = format!("code {}: a layout entry ends outside its 256-bit slot: {:?}", hex(code), layout.slots().iter().map(|s| format!("{:#x}@{} {:?}", s.index.0, s.offset, s.typ)).collect::<Vec<_>>());
                }
                if check == 2 && layout.slots().iter().any(|s| s.offset >= 256) && bad.is_empty() {
                    bad = format!("code {}: layout entries {:?}: one starts outside its 256-bit slot", hex(code), keys.iter().map(|k| format!("{:#x}@{}", k.0, k.1)).collect::<Vec<_>>());
                }
            }
        }
    }
    format!("{{\"violates\": {}, \"programs\": {}, \"layouts\": {}, \"problem\": \"{}\"}}", !bad.is_empty(), programs.len(), analysed, bad.replace('"', "'"))
}

/// analyze() (strict and permissive) on a corpus of hashed-slot idioms with boundary parameters: SHA3 over 0, 1, 2 or 3
/// words of memory that is empty / holds a constant / holds call data, used as a storage key directly, with a constant
/// added on either side, or hashed again, for SSTORE and SLOAD; plus masks, shifts and multiplications of loaded
/// words by boundary constants.  No program may make the analysis panic.
fn idiom_corpus_panics(_p: &str) -> String {
    let mut programs: Vec<Vec<u8>> = Vec::new();
    let preps: [&[u8]; 3] = [&[], &[0x60, 0x07, 0x5f, 0x52], &[0x5f, 0x35, 0x5f, 0x52, 0x60, 0x01, 0x60, 0x20, 0x52]];
    for size in [0u8, 0x20, 0x40, 0x60] {
        for prep in preps {
            for shape in 0..4 {
                for access in 0..2 {
                    let mut c = prep.to_vec();
                    if access == 0 {
                        c.extend_from_slice(&[0x60, 0x01]); // value to store
                    }
                    match shape {
                        0 => c.extend_from_slice(&[0x60, size, 0x5f, 0x20]),
                        1 => c.extend_from_slice(&[0x60, 0x05, 0x60, size, 0x5f, 0x20, 0x01]),
                        2 => c.extend_from_slice(&[0x60, size, 0x5f, 0x20, 0x60, 0x05, 0x01]),
                        _ => c.extend_from_slice(&[0x60, size, 0x5f, 0x20, 0x5f, 0x52, 0x60, 0x20, 0x5f, 0x20]),
                    }
                    if access == 0 {
                        c.push(0x55);
                    } else {
                        c.extend_from_slice(&[0x54, 0x50]);
                    }
                    c.push(0x00);
                    programs.push(c);
                }
            }
        }
    }
    // mapping access plus a boundary constant (struct member offsets): keccak(key . slot) + c as a key
    for c in [[0x10u8, 0, 0, 0, 0, 0, 0, 0], [0, 0x80, 0, 0, 0, 0, 0, 0], [0xff; 8], [0, 0xff, 0xff, 0xff, 0xff, 0xff, 0xff, 0xff]] {
        for access in 0..2 {
            let mut p = vec![0x5f, 0x35, 0x5f, 0x52, 0x60, 0x01, 0x60, 0x20, 0x52];
            if access == 0 {
                p.extend_from_slice(&[0x60, 0x01]);
            }
            p.extend_from_slice(&[0x60, 0x40, 0x5f, 0x20, 0x67]);
            p.extend_from_slice(&c);
            p.push(0x01);
            if access == 0 {
                p.push(0x55);
            } else {
                p.extend_from_slice(&[0x54, 0x50]);
            }
            p.push(0x00);
            programs.push(p);
        }
    }
    // opcodes that take offsets / sizes, with every operand at a boundary value
    for (op, arity) in [(0x37u8, 3usize), (0x39, 3), (0x3c, 4), (0x3e, 3), (0xf3, 2), (0xfd, 2), (0xa0, 2), (0xa2, 4), (0x20, 2), (0xf0, 3), (0xf5, 4),
                        (0xf1, 7), (0xf2, 7), (0xf4, 6), (0xfa, 6), (0x51, 1), (0x52, 2), (0x53, 2)] {
        for v in [&[0x00u8][..], &[0x01], &[0x20], &[0xff; 8], &[0xff; 32], &[0xff, 0xff, 0xff, 0xff, 0xff, 0xff, 0xff, 0xe1]] {
            let mut p = Vec::new();
            for _ in 0..arity {
                p.push(0x5f + v.len() as u8);
                p.extend_from_slice(v);
            }
            p.push(op);
            p.push(0x00);
            programs.push(p);
        }
    }
    // loaded word combined with boundary constants by AND / SHR / SHL / MUL / DIV, then stored elsewhere
    for op in [0x16u8, 0x1c, 0x1b, 0x02, 0x04] {
        for k in [0u8, 1, 8, 0xff] {
            for wide in [false, true] {
                let mut c = vec![0x5f, 0x54];
                if wide {
                    c.push(0x7f);
                    c.extend(std::iter::repeat(k).take(32));
                } else {
                    c.extend_from_slice(&[0x60, k]);
                }
                c.extend_from_slice(&[op, 0x60, 0x01, 0x55, 0x00]);
                programs.push(c);
            }
        }
    }
    let mut bad = String::new();
    for code in &programs {
        for permissive in [false, true] {
            let code2 = code.clone();
            let r = panic::catch_unwind(move || {
                let mut config = Config::default();
                config.permissive_errors = permissive;
                let contract = Contract::new(code2, Chain::Ethereum { version: EthereumVersion::Shanghai });
                let _ = storage_layout_extractor::new(contract, config, tc::Config::default(), LazyWatchdog.in_rc()).analyze();
            });
            if let Err(e) = r {
                let msg = e.downcast_ref::<&str>().map(|s| s.to_string()).or_else(|| e.downcast_ref::<String>().cloned()).unwrap_or_default();
                bad = format!("analyze() panics on {} ({}): {}", hex(code), if permissive { "permissive" } else { "strict" }, msg.replace('"', "'").replace('\n', " "));
                break;
            }
        }
        if !bad.is_empty() {
            break;
        }
    }
    format!("{{\"violates\": {}, \"programs\": {}, \"problem\": \"{}\"}}", !bad.is_empty(), programs.len(), bad.chars().take(300).collect::<String>())
}

/// For every byte value b: the entry decoded at offset 0 of [b, 32 zero bytes] must be of the opcode type the
/// specification assigns to b (its `Debug` form starts with the type's name).  The table is generated from
/// vlib/checks/optable.py, which is written from the Yellow Paper, not from the crate.
fn decoder_table(_p: &str) -> String {
    const EXPECT: [&str; 256] = ["Stop", "Add", "Mul", "Sub", "Div", "SDiv", "Mod", "SMod", "AddMod", "MulMod", "Exp", "SignExtend", "Invalid", "Invalid", "Invalid", "Invalid", "Lt", "Gt", "SLt", "SGt", "Eq", "IsZero", "And", "Or", "Xor", "Not", "Byte", "Shl", "Shr", "Sar", "Invalid", "Invalid", "Sha3", "Invalid", "Invalid", "Invalid", "Invalid", "Invalid", "Invalid", "Invalid", "Invalid", "Invalid", "Invalid", "Invalid", "Invalid", "Invalid", "Invalid", "Invalid", "Address", "Balance", "Origin", "Caller", "CallValue", "CallDataLoad", "CallDataSize", "CallDataCopy", "CodeSize", "CodeCopy", "GasPrice", "ExtCodeSize", "ExtCodeCopy", "ReturnDataSize", "ReturnDataCopy", "ExtCodeHash", "BlockHash", "CoinBase", "Timestamp", "Number", "Prevrandao", "GasLimit", "ChainId", "SelfBalance", "BaseFee", "Invalid", "Invalid", "Invalid", "Invalid", "Invalid", "Invalid", "Invalid", "Pop", "MLoad", "MStore", "MStore8", "SLoad", "SStore", "Jump", "JumpI", "PC", "MSize", "Gas", "JumpDest", "Invalid", "Invalid", "Invalid", "Push0", "PushN", "PushN", "PushN", "PushN", "PushN", "PushN", "PushN", "PushN", "PushN", "PushN", "PushN", "PushN", "PushN", "PushN", "PushN", "PushN", "PushN", "PushN", "PushN", "PushN", "PushN", "PushN", "PushN", "PushN", "PushN", "PushN", "PushN", "PushN", "PushN", "PushN", "PushN", "PushN", "DupN", "DupN", "DupN", "DupN", "DupN", "DupN", "DupN", "DupN", "DupN", "DupN", "DupN", "DupN", "DupN", "DupN", "DupN", "DupN", "SwapN", "SwapN", "SwapN", "SwapN", "SwapN", "SwapN", "SwapN", "SwapN", "SwapN", "SwapN", "SwapN", "SwapN", "SwapN", "SwapN", "SwapN", "SwapN", "LogN", "LogN", "LogN", "LogN", "LogN", "Invalid", "Invalid", "Invalid", "Invalid", "Invalid", "Invalid", "Invalid", "Invalid", "Invalid", "Invalid", "Invalid", "Invalid", "Invalid", "Invalid", "Invalid", "Invalid", "Invalid", "Invalid", "Invalid", "Invalid", "Invalid", "Invalid", "Invalid", "Invalid", "Invalid", "Invalid", "Invalid", "Invalid", "Invalid", "Invalid", "Invalid", "Invalid", "Invalid", "Invalid", "Invalid", "Invalid", "Invalid", "Invalid", "Invalid", "Invalid", "Invalid", "Invalid", "Invalid", "Invalid", "Invalid", "Invalid", "Invalid", "Invalid", "Invalid", "Invalid", "Invalid", "Invalid", "Invalid", "Invalid", "Invalid", "Invalid", "Invalid", "Invalid", "Invalid", "Invalid", "Invalid", "Invalid", "Invalid", "Invalid", "Invalid", "Invalid", "Invalid", "Invalid", "Invalid", "Invalid", "Invalid", "Invalid", "Invalid", "Invalid", "Invalid", "Create", "Call", "CallCode", "Return", "DelegateCall", "Create2", "Invalid", "Invalid", "Invalid", "Invalid", "StaticCall", "Invalid", "Invalid", "Revert", "Invalid", "SelfDestruct"];
    let mut bad = Vec::new();
    for b in 0..=255u8 {
        let mut code = vec![b];
        code.extend(std::iter::repeat(0u8).take(32));
        let s = match InstructionStream::try_from(code.as_slice()) {
            Ok(s) => s,
            Err(e) => {
                bad.push(format!("{b:#04x}: rejected {e:?}").replace('"', "'"));
                continue;
            }
        };
        let t = s.new_thread(0).expect("thread");
        let op = t.instruction(0).expect("entry");
        let dbg = format!("{:?}", op);
        let name: String = dbg.chars().take_while(|c| c.is_alphanumeric()).collect();
        if name != EXPECT[b as usize] {
            bad.push(format!("{b:#04x}: decoded as {name}, the specification says {}", EXPECT[b as usize]));
        }
    }
    format!("{{\"violates\": {}, \"bytes\": 256, \"problems\": \"{}\"}}", !bad.is_empty(), bad.iter().take(6).cloned().collect::<Vec<_>>().join("; "))
}

fn str_param(json: &str, key: &str) -> Option<String> {
    let k = format!("\"{key}\"");
    let i = json.find(&k)?;
    let rest = &json[i + k.len()..];
    let rest = rest.trim_start().strip_prefix(':')?.trim_start().strip_prefix('"')?;
    let end = rest.find('"')?;
    Some(rest[..end].to_string())
}

/// Fold a node of the named variant whose FIRST operand is an opaque leaf and whose second (if any)
/// is the constant 3: the result must be the same variant with the same operands in the same fields.
fn fold_variant(p: &str) -> String {
    let name = str_param(p, "name").unwrap_or_default();
    let leaf: RuntimeBoxedVal = RSV::new_value(7, Provenance::Synthetic);
    let k: RuntimeBoxedVal = RSV::new_known_value(8, KnownWord::from_le(3u8), Provenance::Synthetic, None);
    let (a, b) = (leaf.clone(), k.clone());
    macro_rules! two {
        ($v:ident, $f1:ident, $f2:ident) => {{
            let node = RSV::new_synthetic(0, RSVD::$v { $f1: a.clone(), $f2: b.clone() });
            let folded = node.constant_fold();
            let same = matches!(folded.data(), RSVD::$v { $f1: x, $f2: y } if *x == a && *y == b);
            // and with the operands swapped (constant first, opaque second)
            let node2 = RSV::new_synthetic(0, RSVD::$v { $f1: b.clone(), $f2: a.clone() });
            let folded2 = node2.constant_fold();
            let same2 = matches!(folded2.data(), RSVD::$v { $f1: x, $f2: y } if *x == b && *y == a);
            (same && same2, format!("{:?}", std::mem::discriminant(folded.data())))
        }};
    }
    macro_rules! one {
        ($v:ident, $f1:ident) => {{
            let node = RSV::new_synthetic(0, RSVD::$v { $f1: a.clone() });
            let folded = node.constant_fold();
            let same = matches!(folded.data(), RSVD::$v { $f1: x } if *x == a);
            (same, format!("{:?}", std::mem::discriminant(folded.data())))
        }};
    }
    let (same, got) = match name.as_str() {
        "Add" => two!(Add, left, right),
        "Multiply" => two!(Multiply, left, right),
        "Subtract" => two!(Subtract, left, right),
        "Divide" => two!(Divide, dividend, divisor),
        "SignedDivide" => two!(SignedDivide, dividend, divisor),
        "Modulo" => two!(Modulo, dividend, divisor),
        "SignedModulo" => two!(SignedModulo, dividend, divisor),
        "Exp" => two!(Exp, value, exponent),
        "LessThan" => two!(LessThan, left, right),
        "GreaterThan" => two!(GreaterThan, left, right),
        "SignedLessThan" => two!(SignedLessThan, left, right),
        "SignedGreaterThan" => two!(SignedGreaterThan, left, right),
        "Equals" => two!(Equals, left, right),
        "IsZero" => one!(IsZero, number),
        "And" => two!(And, left, right),
        "Or" => two!(Or, left, right),
        "Xor" => two!(Xor, left, right),
        "Not" => one!(Not, value),
        "LeftShift" => two!(LeftShift, shift, value),
        "RightShift" => two!(RightShift, shift, value),
        "ArithmeticRightShift" => two!(ArithmeticRightShift, shift, value),
        _ => (true, "unknown variant".to_string()),
    };
    format!("{{\"violates\": {}, \"variant\": \"{}\", \"folded_discriminant\": \"{}\"}}", !same, name, got)
}

fn count_nodes(v: &RuntimeBoxedVal) -> usize {
    1 + v.children().iter().map(count_nodes).sum::<usize>()
}

/// Build Add(Add(leaf, 1), 1) through the limited constructor: the reported size must be the node count.
fn culled_size(p: &str) -> String {
    let limit = param(p, "limit").unwrap_or(2) as usize;
    let leaf = RSV::new_value(0, Provenance::Synthetic);
    let one = RSV::new_known_value(0, KnownWord::from_le(1u8), Provenance::Synthetic, None);
    let inner = RSV::new(1, RSVD::Add { left: leaf, right: one.clone() }, Provenance::Execution, Some(limit));
    let outer = RSV::new(2, RSVD::Add { left: inner.clone(), right: one }, Provenance::Execution, Some(limit));
    let mut bad = false;
    let mut obs = String::new();
    for (name, v) in [("inner", &inner), ("outer", &outer)] {
        let n = count_nodes(v);
        obs.push_str(&format!("\"{name}_size\": {}, \"{name}_nodes\": {}, ", v.size(), n));
        bad |= v.size() != n || n > limit;
    }
    format!("{{\"violates\": {}, {}\"limit\": {}}}", bad, obs, limit)
}

/// Run the one-call entry point on `hex` (strict or permissive) and report the outcome:
/// layout entries as [index, offset, type], or the error text.  A panic is caught by main().
fn analyze(p: &str) -> String {
    let code = hex_param(p, "hex").unwrap_or_default();
    let permissive = param(p, "permissive").unwrap_or(0) == 1;
    let mut config = Config::default();
    config.permissive_errors = permissive;
    if let Some(v) = param(p, "value_size_limit") {
        config.value_size_limit = v as usize;
    }
    let contract = Contract::new(code.clone(), Chain::Ethereum { version: EthereumVersion::Shanghai });
    let r = storage_layout_extractor::new(contract, config, tc::Config::default(), LazyWatchdog.in_rc()).analyze();
    match r {
        Ok(layout) => {
            let mut entries = Vec::new();
            let mut sorted = true;
            let mut prev: Option<(ethnum::U256, usize)> = None;
            let mut out_of_slot = false;
            for s in layout.slots() {
                let key = (s.index.0, s.offset);
                if let Some(pv) = prev {
                    if key < pv {
                        sorted = false;
                    }
                }
                prev = Some(key);
                if s.offset >= 256 {
                    out_of_slot = true;
                }
                // known widths in bits
                use storage_layout_extractor::tc::abi::AbiType as T;
                let width = match &s.typ {
                    T::Number { size: Some(n) } | T::UInt { size: Some(n) } | T::Int { size: Some(n) } | T::Bits { length: Some(n) } => Some(*n),
                    T::Bytes { length: Some(n) } => n.checked_mul(8),
                    T::Address => Some(160),
                    T::Selector => Some(32),
                    T::Function => Some(192),
                    T::Bool => Some(8),
                    _ => None,
                };
                if let Some(w) = width {
                    if s.offset.checked_add(w).map_or(true, |e| e > 256) {
                        out_of_slot = true;
                    }
                }
                entries.push(format!("[\"{:#x}\", {}, \"{}\"]", s.index.0, s.offset, format!("{:?}", s.typ).replace('"', "'")));
            }
            format!(
                "{{\"violates\": false, \"ok\": true, \"sorted\": {}, \"out_of_slot\": {}, \"entries\": [{}], \"code\": \"{}\"}}",
                sorted, out_of_slot, entries.join(", "), hex(&code)
            )
        }
        Err(e) => format!(
            "{{\"violates\": false, \"ok\": false, \"error\": \"{}\", \"code\": \"{}\"}}",
            format!("{e:?}").replace('"', "'").replace('\\', "/").chars().take(300).collect::<String>(), hex(&code)
        ),
    }
}

#[derive(Clone, Debug, Default, PartialEq, Eq)]
struct Bits(u8);

impl storage_layout_extractor::data::combine::Combine for Bits {
    fn combine(self, other: Self) -> Self {
        Bits(self.0 | other.0)
    }
    fn identity() -> Self {
        Bits(0)
    }
}

/// One DisjointSet operation from the forest described by the parameters, compared with a naive partition model.
fn forest_step(p: &str) -> String {
    use storage_layout_extractor::data::{disjoint_set::DisjointSet, vector_map::VectorMap};
    let n = param(p, "n").unwrap_or(4) as usize;
    let g = |k: &str, i: usize| param(p, &format!("{k}{i}")).unwrap_or(0);
    let mut reps: Vec<Option<usize>> = Vec::new();
    let mut data: Vec<Option<Bits>> = Vec::new();
    for i in 0..n {
        reps.push(if g("rp", i) == 1 { Some(g("rv", i) as usize) } else { None });
        data.push(if g("dp", i) == 1 { Some(Bits(g("dv", i) as u8)) } else { None });
    }
    let root0 = |mut i: usize| {
        for _ in 0..n {
            if let Some(r) = reps[i] {
                i = r;
            }
        }
        i
    };
    let data0 = |i: usize| data[root0(i)].clone().unwrap_or(Bits(0)).0;
    let rsize = reps.iter().filter(|x| x.is_some()).count();
    let dsize = data.iter().filter(|x| x.is_some()).count();
    let mut ds: DisjointSet<usize, Bits> = DisjointSet::verif_from_parts(
        VectorMap::verif_from_parts(reps.clone(), rsize),
        VectorMap::verif_from_parts(data.clone(), dsize),
    );
    let op = str_param(p, "op").unwrap_or_default();
    let (a, b, d) = (param(p, "a").unwrap_or(0) as usize, param(p, "b").unwrap_or(0) as usize, param(p, "d").unwrap_or(0) as u8);
    // expected classes / data after the operation
    let (ra, rb) = (root0(a), root0(b));
    let cls = |i: usize| match op.as_str() {
        "union" => if root0(i) == rb { ra } else { root0(i) },
        _ => root0(i),
    };
    let dat = |i: usize| match op.as_str() {
        "union" => if cls(i) == ra { data0(a) | data0(b) } else { data0(i) },
        "add_data" => if root0(i) == ra { data0(i) | d } else { data0(i) },
        "set_data" => if root0(i) == ra { d } else { data0(i) },
        _ => data0(i),
    };
    match op.as_str() {
        "find" => { let _ = ds.find(&a); }
        "union" => ds.union(&a, &b),
        "add_data" => ds.add_data(&a, Bits(d)),
        "set_data" => ds.set_data(&a, Bits(d)),
        "get_data" => { let _ = ds.get_data(&a); }
        "insert" => ds.insert(a),
        "sets" => { let _ = ds.sets(); }
        _ => {}
    }
    let mut bad = Vec::new();
    // first the read-only view: the representation invariant of the post-state (what the solver's obligation states) ...
    {
        let (r, d) = ds.verif_parts();
        let (rv, _) = r.verif_parts();
        let (dv, _) = d.verif_parts();
        let rep = |i: usize| rv.get(i).cloned().flatten();
        for i in 0..rv.len().max(dv.len()) {
            if let Some(p) = rep(i) {
                if rep(p).is_none() {
                    bad.push(format!("invariant: parent {p} of {i} is not a member"));
                }
            }
            if dv.get(i).map_or(false, |x| x.is_some()) && rep(i) != Some(i) {
                bad.push(format!("invariant: data kept at {i}, which is not a registered root"));
            }
        }
    }
    // ... and what a user sees of it: sets() lists every class that has data
    if op != "sets" {
        let listed: Vec<usize> = ds.sets().into_iter().map(|(k, _)| k).collect();
        let (_, d) = ds.verif_parts();
        let (dv, _) = d.verif_parts();
        for i in 0..dv.len() {
            if dv[i].as_ref().map_or(false, |x| x.0 != 0) && !listed.contains(&i) {
                bad.push(format!("sets() does not list the class of {i} although it carries data"));
            }
        }
    }
    let roots: Vec<usize> = (0..n).map(|i| ds.find(&i)).collect();
    for i in 0..n {
        for j in (i + 1)..n {
            if (roots[i] == roots[j]) != (cls(i) == cls(j)) {
                bad.push(format!("partition({i},{j})"));
            }
        }
        let got = ds.get_data(&i).cloned().unwrap_or(Bits(0)).0;
        if got != dat(i) {
            bad.push(format!("data({i}): got {got} want {}", dat(i)));
        }
    }
    format!("{{\"violates\": {}, \"op\": \"{}\", \"a\": {}, \"b\": {}, \"differences\": \"{}\", \"reps\": \"{:?}\"}}",
        !bad.is_empty(), op, a, b, bad.join("; "), reps).replace("Some(", "S(")
}

fn run_vm_cfg(code: &[u8], config: Config) -> (bool, String, Vec<usize>) {
    let stream = InstructionStream::try_from(code).expect("disassembles");
    let mut vm = VM::new(stream, config, LazyWatchdog.in_rc()).expect("vm");
    let r = vm.execute();
    let mut visits = vec![0usize; code.len()];
    for st in vm.stored_states() {
        for ip in 0..code.len() as u32 {
            let c = st.visited_instructions().visit_count(ip).unwrap_or(0);
            visits[ip as usize] = visits[ip as usize].max(c);
        }
    }
    match r {
        Ok(()) => (true, String::new(), visits),
        Err(e) => (false, format!("{e:?}").replace('"', "'").chars().take(200).collect(), visits),
    }
}

/// A program that raises exactly one execution error of the named kind, run in strict and in permissive mode.
fn error_kind(p: &str) -> String {
    let kind = str_param(p, "kind").unwrap_or_default();
    let via_jumpi = param(p, "jumpi").unwrap_or(0) == 1;
    let mut gas_limit = None;
    let code: Vec<u8> = match (kind.as_str(), via_jumpi) {
        ("InvalidOffsetForJump", false) => vec![0x64, 1, 0, 0, 0, 0, 0x56],
        ("InvalidOffsetForJump", true) => vec![0x60, 1, 0x64, 1, 0, 0, 0, 0, 0x57, 0x00],
        ("InvalidJumpTarget", false) => vec![0x60, 0, 0x56],
        ("InvalidJumpTarget", true) => vec![0x60, 1, 0x60, 0, 0x57, 0x00],
        ("NonExistentJumpTarget", false) => vec![0x60, 0xff, 0x56],
        ("NonExistentJumpTarget", true) => vec![0x60, 1, 0x60, 0xff, 0x57, 0x00],
        ("NoConcreteJumpDestination", false) => vec![0x36, 0x56],
        ("NoConcreteJumpDestination", true) => vec![0x60, 1, 0x36, 0x57, 0x00],
        ("GasLimitExceeded", false) => {
            gas_limit = Some(2usize);
            vec![0x5b, 0x5b, 0x5b, 0x5b, 0x5b, 0x00]
        }
        // the limit is crossed by the LAST instruction of the path (PUSH1 1 PUSH1 2 ADD = 9 gas)
        ("GasLimitExceeded", true) => {
            gas_limit = Some(7usize);
            vec![0x60, 1, 0x60, 2, 0x01]
        }
        // stack underflow raised by the jump instruction itself
        ("StackUnderflowAtJump", false) => vec![0x56],
        ("StackUnderflowAtJump", true) => vec![0x60, 1, 0x57, 0x00],
        // stack underflow
        _ => vec![0x50, 0x00],
    };
    let mut out = Vec::new();
    for permissive in [false, true] {
        let mut config = Config::default();
        config.permissive_errors = permissive;
        if let Some(g) = gas_limit {
            config.gas_limit = g;
        }
        let (ok, err, visits) = run_vm_cfg(&code, config);
        out.push((ok, err, visits));
    }
    // did anything after the failing instruction run on that path?  (dead code behind a rejected JUMP)
    let after_jump = if !via_jumpi && kind.contains("Jump") && code.len() < 16 { 0 } else { 0 };
    let _ = after_jump;
    // gas exhaustion must be reported at the instruction whose cost crossed the limit
    let mut gas_location_wrong = false;
    if kind == "GasLimitExceeded" {
        let expected = if via_jumpi { 4 } else { 2 };
        for (_, err, _) in &out {
            if let Some(i) = err.find("location: ") {
                let digits: String = err[i + 10..].chars().take_while(|c| c.is_ascii_digit()).collect();
                if digits.parse::<usize>().map_or(true, |l| l != expected) {
                    gas_location_wrong = true;
                }
            }
        }
    }
    // a JUMPI whose *target* is rejected still has its fall-through outcome: the instruction behind it runs, in both modes
    let bad_target = ["InvalidOffsetForJump", "InvalidJumpTarget", "NonExistentJumpTarget", "NoConcreteJumpDestination"].contains(&kind.as_str());
    let fallthrough_dropped = via_jumpi && bad_target && out.iter().any(|(_, _, visits)| visits[code.len() - 1] == 0);
    format!(
        "{{\"violates\": false, \"kind\": \"{}\", \"jumpi\": {}, \"strict_ok\": {}, \"permissive_ok\": {}, \"gas_location_wrong\": {}, \"fallthrough_dropped\": {}, \"strict_error\": \"{}\", \"permissive_error\": \"{}\", \"code\": \"{}\"}}",
        kind, via_jumpi, out[0].0, out[1].0, gas_location_wrong, fallthrough_dropped, out[0].1, out[1].1, hex(&code)
    )
}

/// Dead code behind a rejected unconditional JUMP: PUSH1 0xff JUMP JUMPDEST PUSH1 1 PUSH1 7 SSTORE STOP.
fn rejected_jump_falls_through(p: &str) -> String {
    let permissive = param(p, "permissive").unwrap_or(1) == 1;
    let code = [0x60u8, 0xff, 0x56, 0x5b, 0x60, 1, 0x60, 7, 0x55, 0x00];
    let mut config = Config::default();
    config.permissive_errors = permissive;
    let (ok, err, visits) = run_vm_cfg(&code, config);
    format!("{{\"violates\": {}, \"after_jump_visits\": {}, \"execute_ok\": {}, \"error\": \"{}\", \"code\": \"{}\"}}",
        visits[3] > 0 || visits[8] > 0, visits[3], ok, err, hex(&code))
}

/// A jump (JUMP, and JUMPI with a non-zero condition) whose target is a 0x5b byte inside a PUSH that the end of the code
/// cuts short: the byte is push data, the EVM rejects the jump.
fn jump_into_truncated_push(_p: &str) -> String {
    let mut bad = Vec::new();
    for code in [vec![0x60u8, 0x04, 0x56, 0x61, 0x5b], vec![0x60, 0x01, 0x60, 0x07, 0x57, 0x00, 0x62, 0x5b, 0x5b]] {
        let (ok, err, _) = run_vm_cfg(&code, Config::default());
        if ok || !(err.contains("InvalidJumpTarget") || err.contains("NonExistentJumpTarget")) {
            bad.push(format!("code {}: strict execute ok={ok} error={}", hex(&code), err.chars().take(100).collect::<String>()));
        }
    }
    format!("{{\"violates\": {}, \"problems\": \"{}\"}}", !bad.is_empty(), bad.join("; "))
}

/// PUSH1 4 JUMP INVALID JUMPDEST STOP: the path executes offsets 0, 2 and 5 (the machine steps past the JUMPDEST it lands
/// on).  With a gas limit one below the sum of their
/// minimum costs the run must fail with GasLimitExceeded; with the sum itself it must succeed.
fn jump_gas(_p: &str) -> String {
    let code = [0x60u8, 0x04, 0x56, 0xfe, 0x5b, 0x00];
    let stream = InstructionStream::try_from(code.as_slice()).expect("disassembles");
    let t = stream.new_thread(0).expect("thread");
    let total: usize = [0u32, 2, 5].iter().map(|o| t.instruction(*o).expect("entry").min_gas_cost()).sum();
    let run = |limit: usize| {
        let mut config = Config::default();
        config.gas_limit = limit;
        let (ok, err, _) = run_vm_cfg(&code, config);
        (ok, err)
    };
    let (ok_below, err_below) = run(total - 1);
    let (ok_at, _) = run(total);
    let mut threshold = 0usize;
    while threshold < 64 && !run(threshold).0 {
        threshold += 1;
    }
    let violates = ok_below || !err_below.contains("GasLimitExceeded") || !ok_at;
    let err_below = format!("smallest passing limit {threshold}; {err_below}");
    format!("{{\"violates\": {}, \"cost_of_path\": {}, \"ok_with_limit_below\": {}, \"ok_with_limit_equal\": {}, \"error_below\": \"{}\"}}",
        violates, total, ok_below, ok_at, err_below.chars().take(120).collect::<String>())
}

/// VMThread::fork must carry the gas already consumed over to the new thread and start it at the target, for every
/// target inside the code (the last byte included).
fn fork_gas(_p: &str) -> String {
    let code = [0x5bu8, 0x5b, 0x5b, 0x5b];
    let stream = InstructionStream::try_from(code.as_slice()).expect("disassembles");
    let mut vm = VM::new(stream, Config::default(), LazyWatchdog.in_rc()).expect("vm");
    let t = vm.current_thread_mut().expect("thread");
    t.consume_gas(15);
    let mut bad = Vec::new();
    for target in 0..code.len() as u32 {
        let f = t.fork(target);
        if f.gas_usage() != t.gas_usage() {
            bad.push(format!("fork({target}): gas {} instead of {}", f.gas_usage(), t.gas_usage()));
        }
        if f.instructions().instruction_pointer() != target {
            bad.push(format!("fork({target}) starts at {}", f.instructions().instruction_pointer()));
        }
    }
    format!("{{\"violates\": {}, \"problems\": \"{}\"}}", !bad.is_empty(), bad.join("; "))
}

/// Fork accounting across threads (fork limit 1, iteration limit 1): a target whose fork budget is used up must not be
/// forked to again, whatever other threads do at JUMPIs to the same target.
fn fork_budget(_p: &str) -> String {
    let code: Vec<u8> = vec![0x36, 0x60, 0x08, 0x57, 0x36, 0x60, 0x0e, 0x57, 0x5b, 0x36, 0x60, 0x08, 0x57, 0x00, 0x5b, 0x36, 0x60, 0x08, 0x57, 0x00];
    let mut config = Config::default();
    config.maximum_forks_per_fork_target = 1;
    config.maximum_iterations_per_opcode = 1;
    let stream = InstructionStream::try_from(code.as_slice()).expect("disassembles");
    let mut vm = VM::new(stream, config, LazyWatchdog.in_rc()).expect("vm");
    let _ = vm.execute();
    let forks_to_t = vm.stored_states().iter().filter(|s| [3u32, 12, 18].contains(&s.fork_point())).count();
    let threads = vm.stored_states().len();
    format!("{{\"violates\": {}, \"forks_to_target\": {}, \"fork_limit\": 1, \"threads\": {}, \"thread_bound\": 3}}",
        forks_to_t > 1 || threads > 3, forks_to_t, threads)
}

/// A loop closed by an unconditional JUMP: JUMPDEST PUSH1 0 JUMP.  No offset may be visited more than the limit.
fn jump_loop_visits(p: &str) -> String {
    let limit = param(p, "max_iterations").unwrap_or(3) as usize;
    let code = [0x5bu8, 0x5b, 0x60, 0x00, 0x56, 0x00];
    let mut config = Config::default();
    config.maximum_iterations_per_opcode = limit;
    config.gas_limit = 3000; // keeps a run-away loop finite
    let (_, _, visits) = run_vm_cfg(&code, config);
    let worst = visits.iter().copied().max().unwrap_or(0);
    format!("{{\"violates\": {}, \"limit\": {}, \"worst\": {}, \"visits\": \"{:?}\", \"code\": \"{}\"}}", worst > limit, limit, worst, visits, hex(&code))
}

/// A PUSH cut short by the end of the code: every byte must behave as INVALID (no live instruction, no jump destination).
fn truncated_push(p: &str) -> String {
    use storage_layout_extractor::opcode::control::Invalid;
    let code = hex_param(p, "hex").unwrap_or_else(|| vec![0x61, 0x5b]);
    let r = InstructionStream::try_from(code.as_slice());
    match r {
        Ok(s) => {
            let t = s.new_thread(0).expect("thread");
            let mut live = Vec::new();
            for i in 0..code.len() as u32 {
                let op = t.instruction(i).expect("entry");
                if op.as_ref().as_any().downcast_ref::<Invalid>().is_none() {
                    live.push(format!("{}:{}", i, op.as_text_code()));
                }
            }
            format!("{{\"violates\": {}, \"ok\": true, \"live_entries\": \"{}\", \"code\": \"{}\"}}", !live.is_empty() || s.len() != code.len(), live.join(","), hex(&code))
        }
        Err(e) => format!("{{\"violates\": true, \"ok\": false, \"error\": \"{}\", \"code\": \"{}\"}}", format!("{e:?}").replace('"', "'"), hex(&code)),
    }
}

#[path = "../nodes_gen.rs"]
mod nodes_gen;

/// size() of a freshly built node of the named variant (leaf children) must equal its number of nodes.
fn node_size(p: &str) -> String {
    let name = str_param(p, "name").unwrap_or_default();
    // children are small trees (3 nodes each), so that a child counted as "1" instead of by its size is visible
    let l = RSV::new_value(0, Provenance::Synthetic);
    let leaf = RSV::new_synthetic(0, RSVD::Add { left: l.clone(), right: l });
    match nodes_gen::node_data(&name, &leaf) {
        None => format!("{{\"violates\": false, \"outcome\": \"unknown variant {name}\"}}"),
        Some(d) => {
            let node = RSV::new_synthetic(1, d);
            let n = count_nodes(&node);
            let folded = node.constant_fold();
            let nf = count_nodes(&folded);
            format!(
                "{{\"violates\": {}, \"variant\": \"{}\", \"size\": {}, \"nodes\": {}, \"folded_size\": {}, \"folded_nodes\": {}}}",
                node.size() != n || folded.size() != nf, name, node.size(), n, folded.size(), nf
            )
        }
    }
}

/// Execute `PUSH1 2 PUSH1 1 <opcode>` (top of stack = 1, second = 2) and report which constant ended up in which field
/// of the node the opcode built.  The expectation (EVM operand roles) is evaluated here for the non-commutative opcodes.
fn opcode_wiring(p: &str) -> String {
    let name = str_param(p, "name").unwrap_or_default();
    let byte: u8 = match name.as_str() {
        "Add" => 0x01, "Mul" => 0x02, "Sub" => 0x03, "Div" => 0x04, "SDiv" => 0x05, "Mod" => 0x06, "SMod" => 0x07, "Exp" => 0x0a,
        "SignExtend" => 0x0b, "Lt" => 0x10, "Gt" => 0x11, "SLt" => 0x12, "SGt" => 0x13, "Eq" => 0x14, "IsZero" => 0x15,
        "And" => 0x16, "Or" => 0x17, "Xor" => 0x18, "Not" => 0x19, "Shl" => 0x1b, "Shr" => 0x1c, "Sar" => 0x1d, _ => 0x00,
    };
    let code = [0x60u8, 2, 0x60, 1, byte, 0x00];
    let stream = InstructionStream::try_from(code.as_slice()).expect("disassembles");
    let mut vm = VM::new(stream, Config::default(), LazyWatchdog.in_rc()).expect("vm");
    let _ = vm.execute();
    let st = &vm.stored_states()[0];
    let top = st.stack().read(0).expect("result on the stack").clone();
    let kw = |v: &RuntimeBoxedVal| match v.data() { RSVD::KnownData { value } => usize::from(*value) as i64, _ => -1 };
    // (role of the operand that was on TOP of the stack, role of the second operand)
    let (first, second, ok) = match top.data() {
        RSVD::Subtract { left, right } | RSVD::LessThan { left, right } | RSVD::GreaterThan { left, right }
        | RSVD::SignedLessThan { left, right } | RSVD::SignedGreaterThan { left, right } => (kw(left), kw(right), kw(left) == 1 && kw(right) == 2),
        RSVD::Divide { dividend, divisor } | RSVD::SignedDivide { dividend, divisor } | RSVD::Modulo { dividend, divisor }
        | RSVD::SignedModulo { dividend, divisor } => (kw(dividend), kw(divisor), kw(dividend) == 1 && kw(divisor) == 2),
        RSVD::Exp { value, exponent } => (kw(value), kw(exponent), kw(value) == 1 && kw(exponent) == 2),
        RSVD::SignExtend { size, value } => (kw(size), kw(value), kw(size) == 1 && kw(value) == 2),
        RSVD::LeftShift { shift, value } | RSVD::RightShift { shift, value } | RSVD::ArithmeticRightShift { shift, value } => {
            (kw(shift), kw(value), kw(shift) == 1 && kw(value) == 2)
        }
        _ => (0, 0, true),
    };
    format!("{{\"violates\": {}, \"opcode\": \"{}\", \"top_operand_went_to_first_role\": {}, \"first_role_holds\": {}, \"second_role_holds\": {}, \"node\": \"{}\"}}",
        !ok, name, ok, first, second, format!("{}", top).replace('"', "'").chars().take(80).collect::<String>())
}

#[derive(Debug)]
struct CountingWatchdog {
    polls: std::cell::Cell<usize>,
    stop_from: usize,
    interval: usize,
}

impl storage_layout_extractor::watchdog::Watchdog for CountingWatchdog {
    fn should_stop(&self) -> bool {
        let k = self.polls.get();
        self.polls.set(k + 1);
        k >= self.stop_from
    }
    fn poll_every(&self) -> usize {
        self.interval
    }
}

/// `unify` over N type variables without any evidence, polling every `interval` iterations: the number of polls must
/// be about N / interval (the loop's counter has to advance on every iteration).
fn unify_polls(p: &str) -> String {
    use storage_layout_extractor::tc::{state::TypeCheckerState, unification::unify};
    let n = param(p, "n").unwrap_or(50) as usize;
    let interval = param(p, "interval").unwrap_or(10).max(1) as usize;
    let mut state = TypeCheckerState::empty();
    for _ in 0..n {
        let _ = unsafe { state.allocate_ty_var() };
    }
    let wd = std::rc::Rc::new(CountingWatchdog { polls: std::cell::Cell::new(0), stop_from: usize::MAX, interval });
    let dynwd: storage_layout_extractor::watchdog::DynWatchdog = wd.clone();
    let r = unify(&mut state, &dynwd);
    let polls = wd.polls.get();
    let expected = n / interval + 1;
    format!("{{\"violates\": {}, \"variables\": {}, \"interval\": {}, \"polls\": {}, \"expected_at_most\": {}, \"ok\": {}}}",
        polls > expected + 1, n, interval, polls, expected + 1, r.is_ok())
}

/// Stop the analysis at every poll index in turn: each run must end in a StoppedByWatchdog error; and the number of
/// polls of an uninterrupted run must track the interval (about half as many with interval 2 as with interval 1).
fn watchdog_sweep(p: &str) -> String {
    let interval = param(p, "interval").unwrap_or(2).max(1) as usize;
    // storage writes in a short loop + calldata / code / returndata copies + a return
    let code: Vec<u8> = vec![
        0x60, 0x40, 0x5f, 0x5f, 0x37, // CALLDATACOPY 64 bytes
        0x60, 0x40, 0x5f, 0x5f, 0x39, // CODECOPY
        0x60, 0x20, 0x5f, 0x5f, 0x3e, // RETURNDATACOPY
        0x5f, 0x35, 0x5f, 0x55, // sstore(0, calldataload(0))
        0x60, 0x01, 0x54, 0x60, 0xff, 0x16, 0x60, 0x02, 0x55, // sstore(2, sload(1) & 0xff)
        0x5f, 0x51, 0x60, 0x03, 0x55, // sstore(3, mload(0))
        0x60, 0x20, 0x5f, 0xf3,
    ];
    let run = |stop_from: usize, interval: usize| {
        let wd = std::rc::Rc::new(CountingWatchdog { polls: std::cell::Cell::new(0), stop_from, interval });
        let contract = Contract::new(code.clone(), Chain::Ethereum { version: EthereumVersion::Shanghai });
        let r = storage_layout_extractor::new(contract, Config::default(), tc::Config::default(), wd.clone()).analyze();
        let desc = match &r {
            Ok(l) => format!("Ok({} slots)", l.slots().len()),
            Err(e) => format!("{e:?}").chars().take(120).collect(),
        };
        (wd.polls.get(), r.is_ok(), desc)
    };
    let (total1, ok1, _) = run(usize::MAX, 1);
    let (total_n, okn, _) = run(usize::MAX, interval);
    let mut bad = Vec::new();
    if !ok1 || !okn {
        bad.push("uninterrupted run failed".to_string());
    }
    if total1 == 0 {
        bad.push("no polls at all".to_string());
    }
    let expect = total1 / interval;
    if total_n + 12 < expect || total_n > expect + 12 {
        bad.push(format!("polls with interval {interval}: {total_n}, with interval 1: {total1}"));
    }
    for k in 0..total1 {
        let (polls, ok, desc) = run(k, 1);
        if ok || !desc.contains("StoppedByWatchdog") {
            bad.push(format!("stop at poll {k}: {desc}"));
        }
        if polls > k + 3 {
            bad.push(format!("stop at poll {k}: {polls} polls before returning"));
        }
        if bad.len() > 4 {
            break;
        }
    }
    format!("{{\"violates\": {}, \"polls_interval_1\": {}, \"polls_interval_n\": {}, \"interval\": {}, \"problems\": \"{}\"}}",
        !bad.is_empty(), total1, total_n, interval, bad.join("; ").replace('"', "'"))
}

/// The copy loops of CALLDATACOPY / CODECOPY / EXTCODECOPY / RETURNDATACOPY / CALL's return data: copying `iters` words
/// with a watchdog polled every `interval` iterations must add exactly ceil(iters / interval) polls to what the same
/// program with size 0 needs.
fn copy_loop_polls(p: &str) -> String {
    let iters = param(p, "iters").unwrap_or(16) as usize;
    let interval = param(p, "interval").unwrap_or(4).max(1) as usize;
    let polls = |opcode: u8, size: usize| {
        let mut code = vec![0x61, (size >> 8) as u8, size as u8];
        let extra = match opcode { 0x3c => 3, 0xf1 => 6, _ => 2 };
        code.extend(std::iter::repeat(0x5f).take(extra));
        code.push(opcode);
        code.push(0x00);
        let stream = InstructionStream::try_from(code.as_slice()).expect("disassembles");
        let wd = std::rc::Rc::new(CountingWatchdog { polls: std::cell::Cell::new(0), stop_from: usize::MAX, interval });
        let mut vm = VM::new(stream, Config::default(), wd.clone()).expect("vm");
        let ok = vm.execute().is_ok();
        (wd.polls.get(), ok)
    };
    let expect = (iters + interval - 1) / interval;
    let mut bad = Vec::new();
    for opcode in [0x37u8, 0x39, 0x3c, 0x3e, 0xf1] {
        let (with, ok1) = polls(opcode, 32 * iters);
        let (without, ok0) = polls(opcode, 0);
        if !ok1 || !ok0 {
            bad.push(format!("opcode {opcode:#x}: execution failed"));
        } else if with < without || with - without != expect {
            bad.push(format!("opcode {opcode:#x}: {} polls for {iters} iterations at interval {interval}, expected {expect}", with as isize - without as isize));
        }
    }
    format!("{{\"violates\": {}, \"iters\": {}, \"interval\": {}, \"problems\": \"{}\"}}", !bad.is_empty(), iters, interval, bad.join("; "))
}

/// PUSH32 op(k-1) .. PUSH32 op0 <opcode>: the folded top of the stack must equal `want` (the EVM result, computed by the caller).
fn composite_opcode(p: &str) -> String {
    let opcode = (param(p, "opcode").unwrap_or(0x1a) & 0xff) as u8;
    let mut code = Vec::new();
    let mut n = 0;
    for k in (0..3).rev() {
        if let Some(v) = hex_param(p, &format!("op{k}")) {
            code.push(0x7f);
            let mut w = [0u8; 32];
            for (i, b) in v.iter().rev().take(32).enumerate() {
                w[31 - i] = *b;
            }
            code.extend_from_slice(&w);
            n += 1;
        }
    }
    code.push(opcode);
    code.push(0x00);
    let want = hex_param(p, "want").unwrap_or_default();
    let stream = InstructionStream::try_from(code.as_slice()).expect("disassembles");
    let mut vm = VM::new(stream, Config::default(), LazyWatchdog.in_rc()).expect("vm");
    let _ = vm.execute();
    let st = &vm.stored_states()[0];
    let top = st.stack().read(0).expect("result").constant_fold();
    let got = match top.data() { RSVD::KnownData { value } => hex(&value.value_le().to_be_bytes()), _ => "not-constant".to_string() };
    format!("{{\"violates\": {}, \"operands\": {}, \"folded\": \"{}\", \"evm\": \"{}\"}}", got != hex(&want), n, got, hex(&want))
}

/// JUMPDEST PUSH0 PC PUSH2 0x0102: the stack must hold [0, 2, 0x0102] (bottom to top).
fn push_like(_p: &str) -> String {
    let code = [0x5bu8, 0x5f, 0x58, 0x61, 0x01, 0x02, 0x00];
    let stream = InstructionStream::try_from(code.as_slice()).expect("disassembles");
    let mut vm = VM::new(stream, Config::default(), LazyWatchdog.in_rc()).expect("vm");
    let _ = vm.execute();
    let st = &vm.stored_states()[0];
    let kw = |d: u32| match st.stack().read(d).expect("frame").data() { RSVD::KnownData { value } => usize::from(*value) as i64, _ => -1 };
    let got = [kw(2), kw(1), kw(0)];
    format!("{{\"violates\": {}, \"stack\": \"{:?}\", \"expected\": \"[0, 2, 258]\"}}", got != [0, 2, 0x0102], got)
}

/// sstore(1, 0xaa) before a JUMPI: both successors must still see the write.
fn fork_keeps_storage(_p: &str) -> String {
    // sstore(1,0xaa) sstore(1,0xbb) sstore(2,0xcc)  PUSH1 7 PUSH1 8  CALLDATASIZE PUSH1 <dest> JUMPI  STOP  JUMPDEST STOP
    // both paths must carry the complete history of both slots, in order, and the same stack
    let mut code = vec![0x60u8, 0xaa, 0x60, 0x01, 0x55, 0x60, 0xbb, 0x60, 0x01, 0x55, 0x60, 0xcc, 0x60, 0x02, 0x55, 0x60, 0x07, 0x60, 0x08, 0x36, 0x60];
    let dest = code.len() as u8 + 3;
    code.extend_from_slice(&[dest, 0x57, 0x00, 0x5b, 0x00]);
    let stream = InstructionStream::try_from(code.as_slice()).expect("disassembles");
    let mut vm = VM::new(stream, Config::default(), LazyWatchdog.in_rc()).expect("vm");
    let _ = vm.execute();
    let mut bad = Vec::new();
    let mut counts = Vec::new();
    let constant = |v: &RuntimeBoxedVal| match v.constant_fold().data() { RSVD::KnownData { value } => usize::from(*value) as i64, _ => -1 };
    for st in vm.stored_states() {
        counts.push(st.storage().entry_count());
        for (slot, want) in [(1usize, vec![0xaa, 0xbb]), (2usize, vec![0xcc])] {
            let key = RSV::new_known_value(0, KnownWord::from(slot), Provenance::Synthetic, None);
            let got: Vec<i64> = st.storage().generations(&key).unwrap_or_default().iter().map(|g| constant(g)).collect();
            if got != want {
                bad.push(format!("slot {slot}: history {got:?}, the writes before the branch are {want:?}"));
            }
        }
        let stack: Vec<i64> = (0..st.stack().depth() as u32).map(|d| constant(st.stack().read(d).expect("frame"))).collect();
        if stack != vec![8, 7] {
            bad.push(format!("stack {stack:?}, pushed before the branch: [8, 7]"));
        }
    }
    if counts.len() != 2 {
        bad.push(format!("{} paths, expected 2", counts.len()));
    }
    format!("{{\"violates\": {}, \"storage_entries_per_path\": \"{:?}\", \"problems\": \"{}\"}}", !bad.is_empty(), counts, bad.join("; "))
}

/// lift and assign_vars, each driven on its own with a counting watchdog: a phase loop over n values polled every k
/// iterations makes exactly ceil(n / k) polls; a watchdog that says stop from poll j on makes the phase fail with
/// StoppedByWatchdog after exactly j + 1 polls.
fn tc_phase_polls(p: &str) -> String {
    use storage_layout_extractor::tc::TypeChecker;
    let k = param(p, "interval").unwrap_or(3).max(1) as usize;
    let mut code = Vec::new();
    for slot in 0..12u8 {
        code.extend([0x60, slot, 0x54, 0x60, 0x01, 0x01, 0x15, 0x60, slot, 0x55]);
    }
    code.extend([0x33, 0x60, 12, 0x55, 0x00]);
    let exec = || {
        let stream = InstructionStream::try_from(code.as_slice()).expect("disassembles");
        let mut vm = VM::new(stream, Config::default(), LazyWatchdog.in_rc()).expect("vm");
        vm.execute().expect("executes");
        vm.consume()
    };
    let mut bad = Vec::new();
    // lift
    let result = exec();
    let mut uniq: Vec<RuntimeBoxedVal> = Vec::new();
    for v in result.clone().all_values() {
        if !uniq.contains(&v) {
            uniq.push(v);
        }
    }
    let n_lift = uniq.len();
    let wd = std::rc::Rc::new(CountingWatchdog { polls: std::cell::Cell::new(0), stop_from: usize::MAX, interval: k });
    let mut checker = TypeChecker::new(tc::Config::default(), wd.clone());
    let lifted = checker.lift(result).expect("lifts");
    if wd.polls.get() != (n_lift + k - 1) / k {
        bad.push(format!("lift: {} polls for {} values at interval {}", wd.polls.get(), n_lift, k));
    }
    // assign_vars
    let n_assign = lifted.len();
    let wd = std::rc::Rc::new(CountingWatchdog { polls: std::cell::Cell::new(0), stop_from: usize::MAX, interval: k });
    let mut checker = TypeChecker::new(tc::Config::default(), wd.clone());
    checker.assign_vars(lifted.clone()).expect("assigns");
    if wd.polls.get() != (n_assign + k - 1) / k {
        bad.push(format!("assign_vars: {} polls for {} values at interval {}", wd.polls.get(), n_assign, k));
    }
    // stop at every poll index of assign_vars
    for j in 0..(n_assign + k - 1) / k {
        let wd = std::rc::Rc::new(CountingWatchdog { polls: std::cell::Cell::new(0), stop_from: j, interval: k });
        let mut checker = TypeChecker::new(tc::Config::default(), wd.clone());
        let r = checker.assign_vars(lifted.clone());
        let stopped = matches!(&r, Err(e) if format!("{e:?}").contains("StoppedByWatchdog"));
        if !stopped || wd.polls.get() != j + 1 {
            bad.push(format!("assign_vars told to stop at poll {j}: stopped={stopped}, polls={}", wd.polls.get()));
            break;
        }
    }
    format!("{{\"violates\": {}, \"interval\": {}, \"lift_values\": {}, \"assign_values\": {}, \"problems\": \"{}\"}}", !bad.is_empty(), k, n_lift, n_assign, bad.join("; "))
}

/// Concrete stack programs: PUSH1 1..5 then DUPn / SWAPn for every n that fits; the resulting stack must match a list model.
fn stack_ops(_p: &str) -> String {
    let mut bad = Vec::new();
    for n in 1..=5u8 {
        for (base, is_dup) in [(0x7fu8, true), (0x8fu8, false)] {
            let mut code = Vec::new();
            for v in 1..=6u8 {
                code.extend_from_slice(&[0x60, v]);
            }
            code.push(base + n);
            code.push(0x00);
            let stream = InstructionStream::try_from(code.as_slice()).expect("disassembles");
            let mut vm = VM::new(stream, Config::default(), LazyWatchdog.in_rc()).expect("vm");
            let _ = vm.execute();
            let st = &vm.stored_states()[0];
            let mut model: Vec<i64> = (1..=6).collect();
            if is_dup {
                let x = model[model.len() - n as usize];
                model.push(x);
            } else {
                let t = model.len() - 1;
                model.swap(t, t - n as usize);
            }
            let depth = st.stack().depth();
            let mut got = Vec::new();
            for d in (0..depth as u32).rev() {
                let v = st.stack().read(d).expect("frame");
                got.push(match v.data() { RSVD::KnownData { value } => usize::from(*value) as i64, _ => -1 });
            }
            if got != model {
                bad.push(format!("{}{}: {:?} expected {:?}", if is_dup { "DUP" } else { "SWAP" }, n, got, model));
            }
        }
    }
    // at the limit: with 1024 items on the stack neither PUSH0 nor DUP1 may succeed; with 1023 both do
    for filled in [1023usize, 1024] {
        for grow in [0x5fu8, 0x80] {
            let mut code = vec![0x5fu8; filled];
            code.push(grow);
            code.push(0x00);
            let stream = InstructionStream::try_from(code.as_slice()).expect("disassembles");
            let mut vm = VM::new(stream, Config::default(), LazyWatchdog.in_rc()).expect("vm");
            let ok = vm.execute().is_ok();
            let deepest = vm.stored_states().iter().map(|st| st.stack().depth()).max().unwrap_or(0);
            if ok != (filled < 1024) || deepest > 1024 {
                bad.push(format!("{} items then opcode {grow:#x}: execute ok={ok}, deepest stack {deepest}", filled));
            }
        }
    }
    format!("{{\"violates\": {}, \"problems\": \"{}\"}}", !bad.is_empty(), bad.join("; "))
}

/// MSTORE / SSTORE / MLOAD / SLOAD with distinguishable constants: the value must land under the right offset / key.
fn mem_storage_wiring(_p: &str) -> String {
    // PUSH1 0xaa PUSH1 0x20 MSTORE  PUSH1 0x20 MLOAD   PUSH1 0xbb PUSH1 0x07 SSTORE  PUSH1 0x07 SLOAD  STOP
    let code = [0x60u8, 0xaa, 0x60, 0x20, 0x52, 0x60, 0x20, 0x51, 0x60, 0xbb, 0x60, 0x07, 0x55, 0x60, 0x07, 0x54, 0x00];
    let stream = InstructionStream::try_from(code.as_slice()).expect("disassembles");
    let mut vm = VM::new(stream, Config::default(), LazyWatchdog.in_rc()).expect("vm");
    let _ = vm.execute();
    let st = &vm.stored_states()[0];
    let kw = |v: &RuntimeBoxedVal| match v.constant_fold().data() { RSVD::KnownData { value } => usize::from(*value) as i64, _ => -1 };
    let top = kw(st.stack().read(0).expect("sload result"));
    let second = kw(st.stack().read(1).expect("mload result"));
    // SLOAD of a written key yields the SLoad{key, value} node or the value; accept either shape containing 0xbb
    let top_s = format!("{}", st.stack().read(0).unwrap());
    let second_s = format!("{}", st.stack().read(1).unwrap());
    let ok = (top == 0xbb || top_s.contains("bb")) && (second == 0xaa || second_s.contains("aa"));
    format!("{{\"violates\": {}, \"sload\": \"{}\", \"mload\": \"{}\"}}", !ok, top_s.replace('"', "'"), second_s.replace('"', "'"))
}

/// Every straight-line program of up to 3 steps over slots {0,1}, a step being SSTORE(k, constant), SLOAD(k) POP, or the
/// write-back SSTORE(k, SLOAD(k)): the history of each slot must list exactly the SSTOREs made to it, in order
/// (constants are distinct, so the order is observable); the "never written" placeholder is not a write.
fn storage_history(_p: &str) -> String {
    let mut bad = String::new();
    let mut programs = 0usize;
    'outer: for len in 1..=3usize {
        for id in 0..6usize.pow(len as u32) {
            let mut code = Vec::new();
            let mut expect: [Vec<Option<u8>>; 2] = [Vec::new(), Vec::new()];
            let mut x = id;
            for step in 0..len {
                let (kind, k) = ((x % 6) / 2, (x % 6) % 2);
                x /= 6;
                let c = 0x10 + step as u8;
                match kind {
                    0 => {
                        code.extend_from_slice(&[0x60, c, 0x60, k as u8, 0x55]);
                        expect[k].push(Some(c));
                    }
                    1 => code.extend_from_slice(&[0x60, k as u8, 0x54, 0x50]),
                    _ => {
                        code.extend_from_slice(&[0x60, k as u8, 0x54, 0x60, k as u8, 0x55]);
                        expect[k].push(None);
                    }
                }
            }
            code.push(0x00);
            programs += 1;
            let stream = InstructionStream::try_from(code.as_slice()).expect("disassembles");
            let mut vm = VM::new(stream, Config::default(), LazyWatchdog.in_rc()).expect("vm");
            let _ = vm.execute();
            let st = &vm.stored_states()[0];
            for k in 0..2usize {
                let key = RSV::new_known_value(0, KnownWord::from(k), Provenance::Synthetic, None);
                let got: Vec<Option<u8>> = st
                    .storage()
                    .generations(&key)
                    .unwrap_or_default()
                    .iter()
                    .filter(|g| !matches!(g.data(), RSVD::UnwrittenStorageValue { .. }))
                    .map(|g| match g.constant_fold().data() {
                        RSVD::KnownData { value } => Some(usize::from(*value) as u8),
                        _ => None,
                    })
                    .collect();
                if got != expect[k] {
                    bad = format!("code {}: slot {} history {:?}, the path performs the writes {:?}", hex(&code), k, got, expect[k]);
                    break 'outer;
                }
            }
        }
    }
    format!("{{\"violates\": {}, \"programs\": {}, \"problem\": \"{}\"}}", !bad.is_empty(), programs, bad)
}

/// Every straight-line program of up to 3 steps over offsets {0, 0x20}, a step being MSTORE(o, constant), MLOAD(o) POP or
/// the write-back MSTORE(o, MLOAD(o)), followed by MLOAD of both offsets: each must yield the last constant stored there
/// (0 when nothing was stored), and the number of values the memory holds must be the number of stores plus the
/// zero-initialised words.
fn memory_history(_p: &str) -> String {
    let mut bad = String::new();
    let mut programs = 0usize;
    'outer: for len in 1..=3usize {
        for id in 0..6usize.pow(len as u32) {
            let mut code = Vec::new();
            let mut last: [u8; 2] = [0, 0];
            let mut x = id;
            for step in 0..len {
                let (kind, k) = ((x % 6) / 2, (x % 6) % 2);
                x /= 6;
                let c = 0x10 + step as u8;
                let off = (k * 0x20) as u8;
                match kind {
                    0 => {
                        code.extend_from_slice(&[0x60, c, 0x60, off, 0x52]);
                        last[k] = c;
                    }
                    1 => code.extend_from_slice(&[0x60, off, 0x51, 0x50]),
                    _ => code.extend_from_slice(&[0x60, off, 0x51, 0x60, off, 0x52]),
                }
            }
            code.extend_from_slice(&[0x60, 0x20, 0x51, 0x60, 0x00, 0x51, 0x00]);
            programs += 1;
            let stream = InstructionStream::try_from(code.as_slice()).expect("disassembles");
            let mut vm = VM::new(stream, Config::default(), LazyWatchdog.in_rc()).expect("vm");
            let _ = vm.execute();
            let st = &vm.stored_states()[0];
            for k in 0..2usize {
                let got = match st.stack().read(k as u32).expect("mload result").constant_fold().data() {
                    RSVD::KnownData { value } => usize::from(*value) as i64,
                    _ => -1,
                };
                if got != last[k] as i64 {
                    bad = format!("code {}: MLOAD({:#x}) gives {}, the last value stored there is {}", hex(&code), k * 0x20, got, last[k]);
                    break 'outer;
                }
            }
        }
    }
    format!("{{\"violates\": {}, \"programs\": {}, \"problem\": \"{}\"}}", !bad.is_empty(), programs, bad)
}

fn main() {
    let args: Vec<String> = std::env::args().collect();
    if args.len() < 3 {
        eprintln!("usage: scenario <name> <json>");
        std::process::exit(64);
    }
    panic::set_hook(Box::new(|_| {}));
    let name = args[1].clone();
    let p = args[2].clone();
    let r = panic::catch_unwind(move || match name.as_str() {
        "fork_first_visit" => fork_first_visit(&p),
        "loop_family_visits" => loop_family_visits(&p),
        "jump_target_bits" => jump_target_bits(&p),
        "halting_opcode" => halting_opcode(&p),
        "stack_ops" => stack_ops(&p),
        "push_like" => push_like(&p),
        "composite_opcode" => composite_opcode(&p),
        "copy_loop_polls" => copy_loop_polls(&p),
        "fork_keeps_storage" => fork_keeps_storage(&p),
        "mem_storage_wiring" => mem_storage_wiring(&p),
        "storage_history" => storage_history(&p),
        "memory_history" => memory_history(&p),
        "watchdog_sweep" => watchdog_sweep(&p),
        "tc_phase_polls" => tc_phase_polls(&p),
        "unify_polls" => unify_polls(&p),
        "opcode_wiring" => opcode_wiring(&p),
        "node_size" => node_size(&p),
        "truncated_push" => truncated_push(&p),
        "error_kind" => error_kind(&p),
        "rejected_jump_falls_through" => rejected_jump_falls_through(&p),
        "fork_gas" => fork_gas(&p),
        "jump_gas" => jump_gas(&p),
        "jump_into_truncated_push" => jump_into_truncated_push(&p),
        "fork_budget" => fork_budget(&p),
        "jump_loop_visits" => jump_loop_visits(&p),
        "forest_step" => forest_step(&p),
        "analyze" => analyze(&p),
        "culled_size" => culled_size(&p),
        "fold_variant" => fold_variant(&p),
        "disassemble_roundtrip" => disassemble_roundtrip(&p),
        "disassemble_reference" => disassemble_reference(&p),
        "decoder_table" => decoder_table(&p),
        "layout_family_sorted" => layout_family_sorted(&p),
        "idiom_corpus_panics" => idiom_corpus_panics(&p),
        "permissive_bad_jump" => permissive_bad_jump(&p),
        _ => "{\"violates\": false, \"outcome\": \"unknown scenario\"}".to_string(),
    });
    match r {
        Ok(s) => println!("SCENARIO {s}"),
        Err(e) => {
            let msg = e.downcast_ref::<&str>().map(|s| s.to_string()).or_else(|| e.downcast_ref::<String>().cloned()).unwrap_or_default();
            println!("SCENARIO {{\"violates\": false, \"panicked\": true, \"message\": \"{}\"}}", msg.replace('"', "'").replace('\n', " "));
        }
    }
    let _ = hex_param;
}
