//! Engine R: named native scenarios — concrete programs / calls against the real crate,
//! used to confirm (or refute) solver models that describe internal states.
//!
//! usage: scenario <name> '<json params>'
//! prints: SCENARIO {"violates": bool, ...observations}

use std::panic;

use storage_layout_extractor::{
    disassembly::InstructionStream,
    vm::{Config, VM},
    watchdog::LazyWatchdog,
};

fn param(json: &str, key: &str) -> Option<u64> {
    // tiny extractor for flat {"key": number} objects (no serde_json at run time)
    let k = format!("\"{key}\"");
    let i = json.find(&k)?;
    let rest = &json[i + k.len()..];
    let rest = rest.trim_start().strip_prefix(':')?.trim_start();
    let end = rest.find(|c: char| !c.is_ascii_digit()).unwrap_or(rest.len());
    rest[..end].parse().ok()
}

fn hex_param(json: &str, key: &str) -> Option<Vec<u8>> {
    let k = format!("\"{key}\"");
    let i = json.find(&k)?;
    let rest = &json[i + k.len()..];
    let rest = rest.trim_start().strip_prefix(':')?.trim_start().strip_prefix('"')?;
    let end = rest.find('"')?;
    let h = &rest[..end];
    Some((0..h.len() / 2).map(|i| u8::from_str_radix(&h[2 * i..2 * i + 2], 16).unwrap()).collect())
}

/// A loop whose head is a JUMPDEST reached by fall-through and re-entered by JUMPI:
/// JUMPDEST PUSH1 1 PUSH1 0 JUMPI STOP.  Reports the largest per-thread visit count.
fn fork_first_visit(p: &str) -> String {
    let max_iter = param(p, "max_iterations").unwrap_or(2) as usize;
    let code = [0x5bu8, 0x60, 0x01, 0x60, 0x00, 0x57, 0x00];
    let mut config = Config::default();
    config.maximum_iterations_per_opcode = max_iter;
    let stream = InstructionStream::try_from(code.as_slice()).expect("disassembles");
    let mut vm = VM::new(stream, config, LazyWatchdog.in_rc()).expect("vm");
    let _ = vm.execute();
    let mut worst = 0usize;
    let mut threads = 0usize;
    for st in vm.stored_states() {
        threads += 1;
        for ip in 0..code.len() as u32 {
            let c = st.visited_instructions().visit_count(ip).unwrap_or(0);
            worst = worst.max(c);
        }
    }
    format!(
        "{{\"violates\": {}, \"max_iterations\": {}, \"worst_visit_count\": {}, \"threads\": {}, \"code\": \"5b600160005700\"}}",
        worst > max_iter, max_iter, worst, threads
    )
}

/// Runs `code` in a fresh VM (strict or permissive) and returns, per offset, the largest visit
/// count seen in any stored state, plus whether execute() returned Ok.
fn run_vm(code: &[u8], permissive: bool) -> (Vec<usize>, bool, usize) {
    let mut config = Config::default();
    config.permissive_errors = permissive;
    let stream = InstructionStream::try_from(code).expect("disassembles");
    let mut vm = VM::new(stream, config, LazyWatchdog.in_rc()).expect("vm");
    let ok = vm.execute().is_ok();
    let mut visits = vec![0usize; code.len()];
    for st in vm.stored_states() {
        for ip in 0..code.len() as u32 {
            let c = st.visited_instructions().visit_count(ip).unwrap_or(0);
            visits[ip as usize] = visits[ip as usize].max(c);
        }
    }
    (visits, ok, vm.stored_states().len())
}

fn hex(b: &[u8]) -> String {
    b.iter().map(|x| format!("{x:02x}")).collect()
}

/// JUMP to (high << 32) + 8 where offset 8 is a JUMPDEST followed by an SSTORE to slot 7.
/// The EVM rejects the jump for high != 0; executing the SSTORE means the target was truncated.
fn jump_target_bits(p: &str) -> String {
    let high = (param(p, "high").unwrap_or(1) & 0xff) as u8;
    let code = [0x64u8, high, 0, 0, 0, 8, 0x56, 0x00, 0x5b, 0x60, 1, 0x60, 7, 0x55, 0x00];
    let (visits, ok, states) = run_vm(&code, true);
    format!(
        "{{\"violates\": {}, \"sstore_visits\": {}, \"execute_ok\": {}, \"states\": {}, \"code\": \"{}\"}}",
        high != 0 && visits[13] > 0, visits[13], ok, states, hex(&code)
    )
}

/// PUSH1 0 PUSH1 0 <halting opcode> PUSH1 1 PUSH1 7 SSTORE STOP: nothing after the halting opcode may execute.
fn halting_opcode(p: &str) -> String {
    let op = (param(p, "opcode").unwrap_or(0) & 0xff) as u8;
    let code = [0x60u8, 0, 0x60, 0, op, 0x60, 1, 0x60, 7, 0x55, 0x00];
    let (visits, ok, states) = run_vm(&code, false);
    format!(
        "{{\"violates\": {}, \"after_visits\": {}, \"sstore_visits\": {}, \"execute_ok\": {}, \"states\": {}, \"code\": \"{}\"}}",
        visits[5] > 0 || visits[9] > 0, visits[5], visits[9], ok, states, hex(&code)
    )
}

/// A conditional / unconditional jump to a non-existent target in permissive mode must not, by itself,
/// make execution fail:  PUSH1 1 PUSH1 0xff JUMPI STOP   /   PUSH1 0xff JUMP.
fn permissive_bad_jump(p: &str) -> String {
    let jumpi = param(p, "jumpi").unwrap_or(1) == 1;
    let code: Vec<u8> = if jumpi { vec![0x60, 1, 0x60, 0xff, 0x57, 0x00] } else { vec![0x60, 0xff, 0x56] };
    let (_, ok_permissive, _) = run_vm(&code, true);
    let (_, ok_strict, _) = run_vm(&code, false);
    format!(
        "{{\"violates\": {}, \"permissive_ok\": {}, \"strict_ok\": {}, \"code\": \"{}\"}}",
        !ok_permissive || ok_strict, ok_permissive, ok_strict, hex(&code)
    )
}

/// Disassemble the given bytes through the public API and compare the re-encoding.
fn disassemble_roundtrip(p: &str) -> String {
    let code = hex_param(p, "hex").unwrap_or_else(|| vec![0]);
    let r = InstructionStream::try_from(code.as_slice());
    match r {
        Ok(s) => {
            let back = s.as_bytecode();
            format!(
                "{{\"violates\": {}, \"ok\": true, \"len\": {}, \"entries\": {}, \"code\": \"{}\"}}",
                back != code || s.len() != code.len(), code.len(), s.len(), hex(&code)
            )
        }
        Err(e) => format!(
            "{{\"violates\": {}, \"ok\": false, \"error\": \"{}\", \"code\": \"{}\"}}",
            !code.is_empty(), format!("{e:?}").replace('"', "'"), hex(&code)
        ),
    }
}

fn main() {
    let args: Vec<String> = std::env::args().collect();
    if args.len() < 3 {
        eprintln!("usage: scenario <name> <json>");
        std::process::exit(64);
    }
    panic::set_hook(Box::new(|_| {}));
    let name = args[1].clone();
    let p = args[2].clone();
    let r = panic::catch_unwind(move || match name.as_str() {
        "fork_first_visit" => fork_first_visit(&p),
        "jump_target_bits" => jump_target_bits(&p),
        "halting_opcode" => halting_opcode(&p),
        "disassemble_roundtrip" => disassemble_roundtrip(&p),
        "permissive_bad_jump" => permissive_bad_jump(&p),
        _ => "{\"violates\": false, \"outcome\": \"unknown scenario\"}".to_string(),
    });
    match r {
        Ok(s) => println!("SCENARIO {s}"),
        Err(e) => {
            let msg = e.downcast_ref::<&str>().map(|s| s.to_string()).or_else(|| e.downcast_ref::<String>().cloned()).unwrap_or_default();
            println!("SCENARIO {{\"violates\": false, \"panicked\": true, \"message\": \"{}\"}}", msg.replace('"', "'").replace('\n', " "));
        }
    }
    let _ = hex_param;
}
