//! Engine R: named native scenarios — concrete programs / calls against the real crate,
//! used to confirm (or refute) solver models that describe internal states.
//!
//! usage: scenario <name> '<json params>'
//! prints: SCENARIO {"violates": bool, ...observations}

use std::panic;

use storage_layout_extractor::{
    disassembly::InstructionStream,
    vm::{Config, VM},
    watchdog::LazyWatchdog,
};

fn param(json: &str, key: &str) -> Option<u64> {
    // tiny extractor for flat {"key": number} objects (no serde_json at run time)
    let k = format!("\"{key}\"");
    let i = json.find(&k)?;
    let rest = &json[i + k.len()..];
    let rest = rest.trim_start().strip_prefix(':')?.trim_start();
    let end = rest.find(|c: char| !c.is_ascii_digit()).unwrap_or(rest.len());
    rest[..end].parse().ok()
}

fn hex_param(json: &str, key: &str) -> Option<Vec<u8>> {
    let k = format!("\"{key}\"");
    let i = json.find(&k)?;
    let rest = &json[i + k.len()..];
    let rest = rest.trim_start().strip_prefix(':')?.trim_start().strip_prefix('"')?;
    let end = rest.find('"')?;
    let h = &rest[..end];
    Some((0..h.len() / 2).map(|i| u8::from_str_radix(&h[2 * i..2 * i + 2], 16).unwrap()).collect())
}

/// A loop whose head is a JUMPDEST reached by fall-through and re-entered by JUMPI:
/// JUMPDEST PUSH1 1 PUSH1 0 JUMPI STOP.  Reports the largest per-thread visit count.
fn fork_first_visit(p: &str) -> String {
    let max_iter = param(p, "max_iterations").unwrap_or(2) as usize;
    let code = [0x5bu8, 0x60, 0x01, 0x60, 0x00, 0x57, 0x00];
    let mut config = Config::default();
    config.maximum_iterations_per_opcode = max_iter;
    let stream = InstructionStream::try_from(code.as_slice()).expect("disassembles");
    let mut vm = VM::new(stream, config, LazyWatchdog.in_rc()).expect("vm");
    let _ = vm.execute();
    let mut worst = 0usize;
    let mut threads = 0usize;
    for st in vm.stored_states() {
        threads += 1;
        for ip in 0..code.len() as u32 {
            let c = st.visited_instructions().visit_count(ip).unwrap_or(0);
            worst = worst.max(c);
        }
    }
    format!(
        "{{\"violates\": {}, \"max_iterations\": {}, \"worst_visit_count\": {}, \"threads\": {}, \"code\": \"5b600160005700\"}}",
        worst > max_iter, max_iter, worst, threads
    )
}

fn main() {
    let args: Vec<String> = std::env::args().collect();
    if args.len() < 3 {
        eprintln!("usage: scenario <name> <json>");
        std::process::exit(64);
    }
    panic::set_hook(Box::new(|_| {}));
    let name = args[1].clone();
    let p = args[2].clone();
    let r = panic::catch_unwind(move || match name.as_str() {
        "fork_first_visit" => fork_first_visit(&p),
        _ => "{\"violates\": false, \"outcome\": \"unknown scenario\"}".to_string(),
    });
    match r {
        Ok(s) => println!("SCENARIO {s}"),
        Err(e) => {
            let msg = e.downcast_ref::<&str>().map(|s| s.to_string()).or_else(|| e.downcast_ref::<String>().cloned()).unwrap_or_default();
            println!("SCENARIO {{\"violates\": false, \"panicked\": true, \"message\": \"{}\"}}", msg.replace('"', "'").replace('\n', " "));
        }
    }
    let _ = hex_param;
}
