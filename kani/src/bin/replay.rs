//! Native replay of a solver model through the same harness body.
//!
//! usage: replay <harness> <hex,hex,...>    (values in draw order, LE bytes each)
//! prints one line:  REPLAY harness=<h> outcome=<reproduced|passed|assumption|exhausted|unknown> detail=<panic msg>
//! exit 0 always (the caller reads the outcome).

use std::panic;

use sle_kani::src::{ReplaySrc, ASSUME_VIOLATED, OUT_OF_VALUES};

fn unhex(s: &str) -> Vec<u8> {
    (0..s.len() / 2)
        .map(|i| u8::from_str_radix(&s[2 * i..2 * i + 2], 16).expect("hex"))
        .collect()
}

fn main() {
    let args: Vec<String> = std::env::args().collect();
    if args.len() < 3 {
        eprintln!("usage: replay <harness> <hex,hex,...>");
        std::process::exit(64);
    }
    let name = args[1].clone();
    let vals: Vec<Vec<u8>> =
        args[2].split(',').filter(|x| !x.is_empty()).map(unhex).collect();
    panic::set_hook(Box::new(|_| {}));
    let result = panic::catch_unwind(move || {
        let mut src = ReplaySrc::new(vals);
        let known = sle_kani::run_native(&name, &mut src);
        (known, src.reached)
    });
    let name = &args[1];
    match result {
        Ok((false, _)) => println!("REPLAY harness={name} outcome=unknown detail="),
        Ok((true, reached)) => {
            println!("REPLAY harness={name} outcome=passed detail=reached:{reached}")
        }
        Err(e) => {
            let msg = if let Some(s) = e.downcast_ref::<&str>() {
                (*s).to_string()
            } else if let Some(s) = e.downcast_ref::<String>() {
                s.clone()
            } else {
                "<non-string panic>".to_string()
            };
            let msg = msg.replace('\n', " ");
            if msg == ASSUME_VIOLATED {
                println!("REPLAY harness={name} outcome=assumption detail=");
            } else if msg == OUT_OF_VALUES {
                println!("REPLAY harness={name} outcome=exhausted detail=");
            } else {
                println!("REPLAY harness={name} outcome=reproduced detail={msg}");
            }
        }
    }
}
