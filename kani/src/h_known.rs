//! C09-F1 / C01: every `KnownWord` fold operation against the limb-wise reference
//! model, both operands fully symbolic (2 x 256 bits).  Kani's automatic checks
//! (overflow, shift, index, unwrap, explicit panics) are on, so the same harness
//! decides panic-freedom of the operation (C01) and its value (C09).

use ethnum::U256;
use storage_layout_extractor::vm::value::known::KnownWord;

use crate::{
    model::{self, W},
    src::Src,
};

pub fn word<S: Src>(s: &mut S) -> W {
    let hi = s.u128();
    let lo = s.u128();
    W::new(hi, lo)
}

pub fn kw(w: W) -> KnownWord {
    KnownWord::from_le(U256::from_words(w.hi, w.lo))
}

pub fn unkw(k: KnownWord) -> W {
    let v = k.value_le();
    W::new(*v.high(), *v.low())
}

/// The assertion all value harnesses end in (limb-wise; no memcmp loop).  A macro so
/// that the message is a literal Kani can report.
macro_rules! same {
    ($s:expr, $got:expr, $want:expr, $msg:literal) => {{
        let g = unkw($got);
        let w: W = $want;
        $s.reached();
        assert!(g.hi == w.hi && g.lo == w.lo, $msg);
    }};
}

macro_rules! binop_body {
    ($name:ident, $msg:literal, |$a:ident, $b:ident| $imp:expr, $model:expr) => {
        pub fn $name<S: Src>(s: &mut S) {
            let wa = word(s);
            let wb = word(s);
            let $a = kw(wa);
            let $b = kw(wb);
            let got: KnownWord = $imp;
            let want: W = ($model)(wa, wb);
            same!(s, got, want, $msg);
        }
    };
}

binop_body!(add, "C09 value: ADD", |a, b| a + b, |x: W, y: W| x.add(y));
binop_body!(sub, "C09 value: SUB", |a, b| a - b, |x: W, y: W| x.sub(y));
binop_body!(and, "C09 value: AND", |a, b| a & b, |x: W, y: W| x.and(y));
binop_body!(or, "C09 value: OR", |a, b| a | b, |x: W, y: W| x.or(y));
binop_body!(xor, "C09 value: XOR", |a, b| a ^ b, |x: W, y: W| x.xor(y));
binop_body!(not, "C09 value: NOT", |a, _b| !a, |x: W, _y: W| x.not());
binop_body!(lt, "C09 value: LT", |a, b| a.lt(b), |x: W, y: W| W::from_bool(x.ult(y)));
binop_body!(gt, "C09 value: GT", |a, b| a.gt(b), |x: W, y: W| W::from_bool(x.ugt(y)));
binop_body!(slt, "C09 value: SLT", |a, b| a.signed_lt(b), |x: W, y: W| W::from_bool(x.slt(y)));
binop_body!(sgt, "C09 value: SGT", |a, b| a.signed_gt(b), |x: W, y: W| W::from_bool(x.sgt(y)));
binop_body!(eq, "C09 value: EQ", |a, b| a.eq(b), |x: W, y: W| W::from_bool(x == y));
binop_body!(is_zero, "C09 value: ISZERO", |a, _b| a.is_zero(), |x: W, _y: W| W::from_bool(
    x.is_zero()
));
// value << shift etc.: `a` is the value, `b` the shift amount (full 256-bit range).
binop_body!(shl, "C09 value: SHL", |a, b| a << b, |x: W, y: W| x.shl(y));
binop_body!(shr, "C09 value: SHR", |a, b| a >> b, |x: W, y: W| x.shr(y));
binop_body!(sar, "C09 value: SAR", |a, b| a.sar(b), |x: W, y: W| x.sar(y));
// Multiplier / divider family: cores uninterpreted (shared with the model).
binop_body!(mul, "C09 value: MUL", |a, b| a * b, |x: W, y: W| model::mul(x, y));
binop_body!(div, "C09 value: DIV", |a, b| a / b, |x: W, y: W| model::div(x, y));
binop_body!(rem, "C09 value: MOD", |a, b| a % b, |x: W, y: W| model::rem(x, y));
binop_body!(sdiv, "C09 value: SDIV", |a, b| a.signed_div(b), |x: W, y: W| model::sdiv(x, y));
binop_body!(smod, "C09 value: SMOD", |a, b| a.signed_rem(b), |x: W, y: W| model::smod(x, y));

/// EXP with base 2 and a fully symbolic 256-bit exponent, real multiplier:
/// 2^e = 1 << e for e < 256, else 0.
pub fn exp_base2<S: Src>(s: &mut S) {
    let e = word(s);
    let got = kw(W::new(0, 2)).exp(kw(e));
    let want = model::ONE.shl(e);
    same!(s, got, want, "C09 value: EXP base 2");
}

/// EXP with base 0 and a fully symbolic exponent: 0^0 = 1, 0^e = 0.
pub fn exp_base0<S: Src>(s: &mut S) {
    let e = word(s);
    let got = kw(model::ZERO).exp(kw(e));
    let want = if e.is_zero() { model::ONE } else { model::ZERO };
    same!(s, got, want, "C09 value: EXP base 0");
}

/// EXP with base 1 and a fully symbolic exponent: 1^e = 1.
pub fn exp_base1<S: Src>(s: &mut S) {
    let e = word(s);
    let got = kw(model::ONE).exp(kw(e));
    same!(s, got, model::ONE, "C09 value: EXP base 1");
}

/// EXP with a symbolic base and each exponent 0..=3 (UF multiplier):
/// a^0 = 1, a^1 = a, a^2 = a*a, a^3 = a*(a*a).
pub fn exp_small_exponent<S: Src>(s: &mut S) {
    let a = word(s);
    let mut e = 0u8;
    while e <= 3 {
        let got = kw(a).exp(kw(W::new(0, e as u128)));
        let want = match e {
            0 => model::ONE,
            1 => a,
            2 => model::mul(a, a),
            _ => model::mul(a, model::mul(a, a)),
        };
        same!(s, got, want, "C09 value: EXP small exponent");
        e += 1;
    }
}

/// Conversions used when a folded constant becomes an offset / size / flag.
pub fn conversions<S: Src>(s: &mut S) {
    let w = word(s);
    let k = kw(w);
    let as_usize: usize = k.into();
    let as_u32: u32 = k.into();
    let as_bool: bool = k.into();
    s.reached();
    assert!(as_usize == w.lo as usize, "C01 conv: usize is the low 64 bits");
    assert!(as_u32 == w.lo as u32, "C01 conv: u32 is the low 32 bits");
    assert!(as_bool == !w.is_zero(), "C01 conv: bool is non-zero");
    let n = s.usize();
    let back = unkw(KnownWord::from(n));
    assert!(back.hi == 0 && back.lo == n as u128, "C01 conv: from usize is zero-extended");
}

/// Vacuity twin: must FAIL.
pub fn twin<S: Src>(s: &mut S) {
    let wa = word(s);
    let wb = word(s);
    let _ = kw(wa) + kw(wb);
    s.reached();
    assert!(false, "TWIN");
}
