//! C19 (vector map half): `VectorMap<usize, u8>` against `[Option<u8>; N]` + count.
//!
//! One operation (and pairs of operations) from an ARBITRARY VALID STATE, built with
//! the `verif_from_parts` hook: buffer of concrete length N with symbolic contents and
//! `size` = number of occupied entries.  One inductive step covers histories of any
//! length.  Keys are symbolic in 0..N+2 for get/remove (so out-of-buffer keys are
//! covered) and 0..N for insert (no reallocation under the solver; growth is covered
//! by `vmap_grow` with concrete keys).

use storage_layout_extractor::data::vector_map::VectorMap;

use crate::src::Src;

pub const N: usize = 4;

pub type Model = [Option<u8>; N];

pub fn count(m: &Model) -> usize {
    let mut c = 0;
    let mut i = 0;
    while i < N {
        if m[i].is_some() {
            c += 1;
        }
        i += 1;
    }
    c
}

/// An arbitrary valid state and its model.
pub fn any_state<S: Src>(s: &mut S) -> (VectorMap<usize, u8>, Model) {
    let mut model: Model = [None; N];
    let mut data: Vec<Option<u8>> = Vec::with_capacity(N + 4);
    let mut i = 0;
    while i < N {
        let present = s.bool();
        let v = s.u8();
        let e = if present { Some(v) } else { None };
        model[i] = e;
        data.push(e);
        i += 1;
    }
    let size = count(&model);
    (VectorMap::verif_from_parts(data, size), model)
}

/// The map agrees with the model on contents, presence and reported length.
macro_rules! agree {
    ($map:expr, $model:expr) => {{
        let mut i = 0;
        while i < N {
            assert!($map.get(&i).copied() == $model[i], "C19 vector map: contents/presence differ from the model");
            i += 1;
        }
        assert!($map.get(&N).is_none() || $map.verif_parts().0.len() > N, "C19 vector map: phantom entry beyond the buffer");
        assert!($map.len() == count(&$model), "C19 vector map: len() differs from the number of entries");
        assert!($map.is_empty() == (count(&$model) == 0), "C19 vector map: is_empty() disagrees with the model");
    }};
}

fn step<S: Src>(s: &mut S, map: &mut VectorMap<usize, u8>, model: &mut Model) {
    let op = s.u8();
    let k = s.usize();
    let v = s.u8();
    s.assume(op < 3);
    match op {
        0 => {
            s.assume(k < N);
            map.insert(&k, v);
            model[k] = Some(v);
        }
        1 => {
            s.assume(k < N + 2);
            let got = map.remove(&k);
            let want = if k < N { model[k].take() } else { None };
            assert!(got == want, "C19 vector map: remove() returned the wrong value");
        }
        _ => {
            s.assume(k < N + 2);
            let got = map.get(&k).copied();
            let want = if k < N { model[k] } else { None };
            assert!(got == want, "C19 vector map: get() returned the wrong value");
        }
    }
}

/// One operation from an arbitrary valid state.
pub fn one_op<S: Src>(s: &mut S) {
    let (mut map, mut model) = any_state(s);
    step(s, &mut map, &mut model);
    s.reached();
    agree!(map, model);
    std::mem::forget(map);
}

/// Two operations from an arbitrary valid state (drift that needs a second step to
/// become visible, e.g. a wrong count followed by `is_empty`).
pub fn two_ops<S: Src>(s: &mut S) {
    let (mut map, mut model) = any_state(s);
    step(s, &mut map, &mut model);
    step(s, &mut map, &mut model);
    s.reached();
    agree!(map, model);
    std::mem::forget(map);
}

/// Enumeration agrees with the model: `iter`, `indices`, `values` yield exactly the
/// occupied entries.
pub fn iteration<S: Src>(s: &mut S) {
    let (map, model) = any_state(s);
    let mut seen = 0usize;
    for (i, v) in map.iter() {
        assert!(i < N && model[i] == Some(*v), "C19 vector map: iter() yields an entry the model lacks");
        seen += 1;
    }
    s.reached();
    assert!(seen == count(&model), "C19 vector map: iter() misses or repeats entries");
    let mut n_idx = 0usize;
    for i in map.indices() {
        assert!(i < N && model[i].is_some(), "C19 vector map: indices() yields an absent key");
        n_idx += 1;
    }
    assert!(n_idx == count(&model), "C19 vector map: indices() misses or repeats keys");
    std::mem::forget(map);
}

/// A removal, an insertion and THEN enumeration, from an arbitrary valid state: an entry written into a slot that an
/// earlier removal vacated must still be enumerated (state that `get` / `len` do not show but `iter` depends on).
pub fn ops_then_iteration<S: Src>(s: &mut S) {
    let (mut map, mut model) = any_state(s);
    let (k1, k2, v) = (s.usize(), s.usize(), s.u8());
    s.assume(k1 < N && k2 < N);
    let _ = map.remove(&k1);
    model[k1] = None;
    map.insert(&k2, v);
    model[k2] = Some(v);
    let mut seen = 0usize;
    for (i, x) in map.iter() {
        assert!(i < N && model[i] == Some(*x), "C19 vector map: after remove + insert iter() yields an entry the model lacks");
        seen += 1;
    }
    s.reached();
    assert!(seen == count(&model), "C19 vector map: after remove + insert iter() misses or repeats entries");
    std::mem::forget(map);
}

/// Growth with concrete keys from the empty map: insert at 0, 3, 1 then overwrite and
/// remove (values symbolic).
pub fn grow<S: Src>(s: &mut S) {
    let mut map: VectorMap<usize, u8> = VectorMap::with_capacity(8);
    let mut model: Model = [None; N];
    let (a, b, c, d) = (s.u8(), s.u8(), s.u8(), s.u8());
    map.insert(&0, a);
    model[0] = Some(a);
    map.insert(&3, b);
    model[3] = Some(b);
    map.insert(&3, d);
    model[3] = Some(d);
    agree!(map, model);
    let r = map.remove(&2);
    assert!(r.is_none(), "C19 vector map: remove() of an absent key returned a value");
    agree!(map, model);
    map.insert(&1, c);
    model[1] = Some(c);
    let r = map.remove(&1);
    model[1] = None;
    assert!(r == Some(c), "C19 vector map: remove() returned the wrong value");
    s.reached();
    agree!(map, model);
    std::mem::forget(map);
}

pub fn twin<S: Src>(s: &mut S) {
    let (mut map, mut model) = any_state(s);
    step(s, &mut map, &mut model);
    s.reached();
    assert!(false, "TWIN");
}
