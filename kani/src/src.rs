//! Input sources.  A harness body is written once, generic over `Src`:
//! under Kani every draw is `kani::any()` (a solver variable); natively the
//! draws are read back from a solver model (concrete playback bytes) so that the
//! very same body replays the counterexample against the real build.

pub trait Src {
    fn u8(&mut self) -> u8;
    fn u16(&mut self) -> u16;
    fn u32(&mut self) -> u32;
    fn u64(&mut self) -> u64;
    fn u128(&mut self) -> u128;
    fn usize(&mut self) -> usize;
    fn bool(&mut self) -> bool;
    /// Constrain the inputs.  Natively: a model violating an assumption is not a
    /// counterexample (replay reports "assumption violated").
    fn assume(&mut self, c: bool);
    /// Reachability witness at the assertion site.
    fn reached(&mut self);
}

#[cfg(kani)]
pub struct KaniSrc;

#[cfg(kani)]
impl Src for KaniSrc {
    fn u8(&mut self) -> u8 {
        kani::any()
    }
    fn u16(&mut self) -> u16 {
        kani::any()
    }
    fn u32(&mut self) -> u32 {
        kani::any()
    }
    fn u64(&mut self) -> u64 {
        kani::any()
    }
    fn u128(&mut self) -> u128 {
        kani::any()
    }
    fn usize(&mut self) -> usize {
        kani::any()
    }
    fn bool(&mut self) -> bool {
        kani::any()
    }
    fn assume(&mut self, c: bool) {
        kani::assume(c)
    }
    fn reached(&mut self) {
        kani::cover!(true, "REACHED");
    }
}

/// Native replay source: values in draw order, little-endian bytes each.
pub struct ReplaySrc {
    pub vals: Vec<Vec<u8>>,
    pub pos: usize,
    pub reached: bool,
}

pub const ASSUME_VIOLATED: &str = "REPLAY_ASSUMPTION_VIOLATED";
pub const OUT_OF_VALUES: &str = "REPLAY_OUT_OF_VALUES";

impl ReplaySrc {
    pub fn new(vals: Vec<Vec<u8>>) -> Self {
        Self { vals, pos: 0, reached: false }
    }
    fn next(&mut self, n: usize) -> u128 {
        if self.pos >= self.vals.len() {
            std::panic::panic_any(OUT_OF_VALUES);
        }
        let v = &self.vals[self.pos];
        self.pos += 1;
        let mut out = 0u128;
        for (i, b) in v.iter().enumerate().take(n.min(16)) {
            out |= (*b as u128) << (8 * i);
        }
        out
    }
}

impl Src for ReplaySrc {
    fn u8(&mut self) -> u8 {
        self.next(1) as u8
    }
    fn u16(&mut self) -> u16 {
        self.next(2) as u16
    }
    fn u32(&mut self) -> u32 {
        self.next(4) as u32
    }
    fn u64(&mut self) -> u64 {
        self.next(8) as u64
    }
    fn u128(&mut self) -> u128 {
        self.next(16)
    }
    fn usize(&mut self) -> usize {
        self.next(8) as usize
    }
    fn bool(&mut self) -> bool {
        self.next(1) & 1 == 1
    }
    fn assume(&mut self, c: bool) {
        if !c {
            std::panic::panic_any(ASSUME_VIOLATED);
        }
    }
    fn reached(&mut self) {
        self.reached = true;
    }
}
