//! C10 (Engine A part): the contract of `PushN` that the MIR encoding of the disassembler relies on.
//!   new(n, bytes) is Ok  iff  1 <= n <= 32 and |bytes| == n
//!   encode() == [0x5f + n] ++ bytes        (so re-encoding reproduces the input)
//!   bytes_as_word() == big-endian value of the immediate
//! Length LEN is concrete per harness (no symbolic reallocation), contents and n symbolic.

use storage_layout_extractor::opcode::{memory::PushN, Opcode};

use crate::{h_known::unkw, src::Src};

/// new(n, bytes) is Ok exactly when 1 <= n <= 32 and |bytes| == n  (n symbolic, LEN concrete).
pub fn accepts<S: Src, const LEN: usize>(s: &mut S) {
    let n = s.u8();
    let mut data = [0u8; LEN];
    let mut i = 0;
    while i < LEN {
        data[i] = s.u8();
        i += 1;
    }
    let r = PushN::new(n, data.to_vec());
    s.reached();
    let should = n >= 1 && n <= 32 && LEN == n as usize;
    assert!(r.is_ok() == should, "C10 PushN: new() accepts exactly 1 <= n <= 32 with n immediate bytes");
    std::mem::forget(r);
}

/// For an accepted push (n == LEN, contents symbolic): encode() == [0x5f + n] ++ bytes and
/// bytes_as_word() is the big-endian value of the immediate.
pub fn contract<S: Src, const LEN: usize>(s: &mut S) {
    let n = LEN as u8;
    let mut data = [0u8; LEN];
    let mut i = 0;
    while i < LEN {
        data[i] = s.u8();
        i += 1;
    }
    let r = PushN::new(n, data.to_vec());
    s.reached();
    assert!(r.is_ok(), "C10 PushN: new() rejects a well-formed push");
    if let Ok(p) = r {
        let e = p.encode();
        assert!(e.len() == LEN + 1, "C10 PushN: encode() has the wrong length");
        assert!(e[0] == 0x5f + n, "C10 PushN: encode() does not start with the PUSHn opcode byte");
        let mut i = 0;
        while i < LEN {
            assert!(e[i + 1] == data[i], "C10 PushN: encode() does not reproduce the immediate bytes in order");
            i += 1;
        }
        assert!(p.as_byte() == 0x5f + n && p.byte_size() == n, "C10 PushN: as_byte()/byte_size() disagree with n");
        let w = unkw(p.bytes_as_word());
        let mut hi: u128 = 0;
        let mut lo: u128 = 0;
        let mut i = 0;
        while i < LEN {
            hi = (hi << 8) | (lo >> 120);
            lo = (lo << 8) | data[i] as u128;
            i += 1;
        }
        assert!(w.hi == hi && w.lo == lo, "C10 PushN: bytes_as_word() is not the big-endian value of the immediate");
        std::mem::forget(e);
        std::mem::forget(p);
    }
}

pub fn twin<S: Src>(s: &mut S) {
    let n = s.u8();
    let r = PushN::new(n, vec![s.u8()]);
    s.reached();
    let _ = r;
    assert!(false, "TWIN");
}
