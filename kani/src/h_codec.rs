//! C20 (index codec only): a slot index serialises to "0x" + 64 lowercase hex digits (big-endian) and is read
//! back exactly, for every 256-bit value.  Drives the real `Serialize` / `Deserialize` impls of `U256Wrapper`
//! through a string-capturing serializer and serde's own `StringDeserializer`.

use ethnum::U256;
use serde::{
    de::value::{Error, StringDeserializer},
    ser::Impossible,
    Deserialize,
    Serialize,
    Serializer,
};
use storage_layout_extractor::utility::U256Wrapper;

use crate::src::Src;

struct Capture;

macro_rules! refuse {
    ($($name:ident($($t:ty),*);)*) => { $( fn $name(self $(, _: $t)*) -> Result<String, Error> { Err(not_a_string()) } )* };
}

fn not_a_string() -> Error {
    <Error as serde::ser::Error>::custom("not a string")
}

impl Serializer for Capture {
    type Ok = String;
    type Error = Error;
    type SerializeSeq = Impossible<String, Error>;
    type SerializeTuple = Impossible<String, Error>;
    type SerializeTupleStruct = Impossible<String, Error>;
    type SerializeTupleVariant = Impossible<String, Error>;
    type SerializeMap = Impossible<String, Error>;
    type SerializeStruct = Impossible<String, Error>;
    type SerializeStructVariant = Impossible<String, Error>;

    fn serialize_str(self, v: &str) -> Result<String, Error> {
        Ok(v.to_owned())
    }
    refuse! {
        serialize_bool(bool); serialize_i8(i8); serialize_i16(i16); serialize_i32(i32); serialize_i64(i64);
        serialize_u8(u8); serialize_u16(u16); serialize_u32(u32); serialize_u64(u64); serialize_f32(f32);
        serialize_f64(f64); serialize_char(char); serialize_bytes(&[u8]); serialize_none(); serialize_unit();
        serialize_unit_struct(&'static str); serialize_unit_variant(&'static str, u32, &'static str);
    }
    fn serialize_some<T: ?Sized + Serialize>(self, _: &T) -> Result<String, Error> {
        Err(not_a_string())
    }
    fn serialize_newtype_struct<T: ?Sized + Serialize>(self, _: &'static str, _: &T) -> Result<String, Error> {
        Err(not_a_string())
    }
    fn serialize_newtype_variant<T: ?Sized + Serialize>(self, _: &'static str, _: u32, _: &'static str, _: &T) -> Result<String, Error> {
        Err(not_a_string())
    }
    fn serialize_seq(self, _: Option<usize>) -> Result<Self::SerializeSeq, Error> {
        Err(not_a_string())
    }
    fn serialize_tuple(self, _: usize) -> Result<Self::SerializeTuple, Error> {
        Err(not_a_string())
    }
    fn serialize_tuple_struct(self, _: &'static str, _: usize) -> Result<Self::SerializeTupleStruct, Error> {
        Err(not_a_string())
    }
    fn serialize_tuple_variant(self, _: &'static str, _: u32, _: &'static str, _: usize) -> Result<Self::SerializeTupleVariant, Error> {
        Err(not_a_string())
    }
    fn serialize_map(self, _: Option<usize>) -> Result<Self::SerializeMap, Error> {
        Err(not_a_string())
    }
    fn serialize_struct(self, _: &'static str, _: usize) -> Result<Self::SerializeStruct, Error> {
        Err(not_a_string())
    }
    fn serialize_struct_variant(self, _: &'static str, _: u32, _: &'static str, _: usize) -> Result<Self::SerializeStructVariant, Error> {
        Err(not_a_string())
    }
}

fn digit(n: u8) -> u8 {
    if n < 10 {
        b'0' + n
    } else {
        b'a' + (n - 10)
    }
}

/// The written form: "0x" followed by exactly 64 lowercase hex digits, most significant first.
pub fn index_format<S: Src>(s: &mut S) {
    let v = U256::from_words(s.u128(), s.u128());
    let text = match U256Wrapper(v).serialize(Capture) {
        Ok(t) => t,
        Err(_) => {
            s.reached();
            panic!("C20 index: not serialised as a string");
        }
    };
    s.reached();
    let b = text.as_bytes();
    assert!(b.len() == 66, "C20 index: the written form is not 66 characters long");
    assert!(b[0] == b'0' && b[1] == b'x', "C20 index: the written form does not start with 0x");
    let be = v.to_be_bytes();
    let mut i = 0;
    while i < 32 {
        assert!(b[2 + 2 * i] == digit(be[i] >> 4), "C20 index: a high digit differs from the value's nibble");
        assert!(b[3 + 2 * i] == digit(be[i] & 15), "C20 index: a low digit differs from the value's nibble");
        i += 1;
    }
}

/// Reading back what was written gives the same 256-bit value.
pub fn index_roundtrip<S: Src>(s: &mut S) {
    let v = U256::from_words(s.u128(), s.u128());
    let text = match U256Wrapper(v).serialize(Capture) {
        Ok(t) => t,
        Err(_) => {
            s.reached();
            panic!("C20 index: not serialised as a string");
        }
    };
    let back = U256Wrapper::deserialize(StringDeserializer::<Error>::new(text));
    s.reached();
    match back {
        Ok(w) => assert!(*w.0.high() == *v.high() && *w.0.low() == *v.low(), "C20 index: read back a different value"),
        Err(_) => panic!("C20 index: the written form is not read back"),
    }
}

/// Reading: any well-formed 66-character form (either digit case) denotes the value of its digits.
pub fn index_parse<S: Src>(s: &mut S) {
    let mut text = String::with_capacity(66);
    text.push_str("0x");
    let mut nibbles = [0u8; 64];
    let mut i = 0;
    while i < 64 {
        let n = s.u8();
        s.assume(n < 16);
        nibbles[i] = n;
        text.push(digit(n) as char);
        i += 1;
    }
    let back = U256Wrapper::deserialize(StringDeserializer::<Error>::new(text));
    s.reached();
    let w = match back {
        Ok(w) => w,
        Err(_) => panic!("C20 index: a well-formed index is rejected"),
    };
    let be = w.0.to_be_bytes();
    let mut i = 0;
    while i < 32 {
        assert!(be[i] == (nibbles[2 * i] << 4) | nibbles[2 * i + 1], "C20 index: parsed value differs from its digits");
        i += 1;
    }
}

pub fn twin<S: Src>(s: &mut S) {
    let v = U256::from_words(s.u128(), s.u128());
    let r = U256Wrapper(v).serialize(Capture);
    s.reached();
    assert!(r.is_err(), "TWIN");
}

// ---- probes (feasibility measurements, not registered in MANIFEST) ----------------------------------------------
pub fn probe_serialize_const<S: Src>(s: &mut S) {
    let text = U256Wrapper(U256::new(42)).serialize(Capture).unwrap_or_default();
    s.reached();
    assert!(text.len() == 66, "PROBE serialise constant");
}

pub fn probe_parse_const<S: Src>(s: &mut S) {
    let text = String::from("0x000000000000000000000000000000000000000000000000000000000000002a");
    let back = U256Wrapper::deserialize(StringDeserializer::<Error>::new(text));
    s.reached();
    assert!(matches!(back, Ok(w) if *w.0.low() == 42), "PROBE parse constant");
}

pub fn probe_parse_sym<S: Src>(s: &mut S) {
    let mut bytes = [b'0'; 66];
    bytes[1] = b'x';
    let mut i = 0;
    while i < 64 {
        let n = s.u8();
        s.assume(n < 16);
        bytes[2 + i] = digit(n);
        i += 1;
    }
    let text = match core::str::from_utf8(&bytes) {
        Ok(t) => t,
        Err(_) => return,
    };
    let back = U256::from_str_hex(text);
    s.reached();
    assert!(back.is_ok(), "PROBE parse symbolic digits");
}
