//! C12-L1: `StorageLayout::add` keeps the slots ordered by (full 256-bit index, offset)
//! and loses / invents no entry; index conversions keep every bit.

use ethnum::U256;
use storage_layout_extractor::{
    layout::StorageLayout,
    tc::abi::AbiType,
    utility::U256Wrapper,
    vm::value::known::KnownWord,
};

use crate::{
    h_known::{kw, word},
    model::W,
    src::Src,
};

fn lt_key(a: (W, usize), b: (W, usize)) -> bool {
    a.0.ult(b.0) || (a.0 == b.0 && a.1 < b.1)
}

pub fn add_n<S: Src, const N: usize>(s: &mut S) {
    let mut layout = StorageLayout::default();
    let mut added: [(W, usize); N] = [(W::new(0, 0), 0); N];
    let mut i = 0;
    while i < N {
        let w = word(s);
        let off = s.usize();
        added[i] = (w, off);
        // through the KnownWord conversion, as the type checker does
        layout.add(kw(w), off, AbiType::Any);
        i += 1;
    }
    let slots = layout.slots();
    s.reached();
    assert!(slots.len() == N, "C12 layout: add() lost or duplicated an entry");
    // ordered by (index, offset), full-width comparison
    let mut i = 1;
    while i < N {
        let a = (W::from_u256(slots[i - 1].index.0), slots[i - 1].offset);
        let b = (W::from_u256(slots[i].index.0), slots[i].offset);
        assert!(!lt_key(b, a), "C12 layout: slots are not ordered by (index, offset)");
        i += 1;
    }
    // permutation of what was added: every added pair occurs at least as often in
    // the result as in the input (with equal lengths this is multiset equality)
    let mut i = 0;
    while i < N {
        let mut n_in = 0;
        let mut n_out = 0;
        let mut j = 0;
        while j < N {
            if added[j].0 == added[i].0 && added[j].1 == added[i].1 {
                n_in += 1;
            }
            let o = (W::from_u256(slots[j].index.0), slots[j].offset);
            if o.0 == added[i].0 && o.1 == added[i].1 {
                n_out += 1;
            }
            j += 1;
        }
        assert!(n_in == n_out, "C12 layout: result is not a permutation of the added entries");
        i += 1;
    }
    std::mem::forget(layout);
}

/// Index conversions keep all 256 bits.
pub fn index_conversions<S: Src>(s: &mut S) {
    let w = word(s);
    let a: U256Wrapper = kw(w).into();
    let b: U256Wrapper = (&kw(w)).into();
    let c: U256Wrapper = U256::from_words(w.hi, w.lo).into();
    let back: KnownWord = a.into();
    s.reached();
    assert!(W::from_u256(a.0) == w && W::from_u256(b.0) == w && W::from_u256(c.0) == w, "C12 index: conversion to U256Wrapper drops bits");
    assert!(crate::h_known::unkw(back) == w, "C12 index: conversion back to KnownWord drops bits");
    let n = s.usize();
    let d: U256Wrapper = n.into();
    assert!(W::from_u256(d.0) == W::new(0, n as u128), "C12 index: usize conversion is not zero-extended");
    // ordering of the wrapper is the unsigned 256-bit order
    let v = word(s);
    let (x, y) = (U256Wrapper(w.to_u256()), U256Wrapper(v.to_u256()));
    assert!((x < y) == w.ult(v), "C12 index: U256Wrapper order is not the unsigned 256-bit order");
    assert!((x == y) == (w == v), "C12 index: U256Wrapper equality is not bit equality");
}

pub fn twin<S: Src>(s: &mut S) {
    let mut layout = StorageLayout::default();
    let w = word(s);
    layout.add(kw(w), 0usize, AbiType::Any);
    s.reached();
    assert!(false, "TWIN");
}

/// C12-L2: `MulShiftedValue::which_power_of_2(2^k) == Some(k)` for every k.  The divider core is specialised exactly
/// for divisor 2 (`stubs::udivmod4_by_two`); the loop runs at most 256 times.
pub fn pow2_exact<S: Src, const MAXK: u16>(s: &mut S) {
    use storage_layout_extractor::tc::lift::mul_shifted::MulShiftedValue;
    let k = s.u16();
    s.assume(k < MAXK);
    let w = crate::model::ONE.shl(W::new(0, k as u128));
    let got = MulShiftedValue::which_power_of_2(kw(w));
    s.reached();
    assert!(got == Some(k as usize), "C12 pow2: which_power_of_2(2^k) is not k");
    assert!(MulShiftedValue::which_power_of_2(kw(crate::model::ZERO)).is_none(), "C12 pow2: zero is reported as a power of two");
}

/// C12-L2: numbers with exactly two bits set (2^k + 2^j, j < k) are not powers of two.
pub fn pow2_rejects<S: Src, const MAXK: u16>(s: &mut S) {
    use storage_layout_extractor::tc::lift::mul_shifted::MulShiftedValue;
    let k = s.u16();
    let j = s.u16();
    s.assume(k < MAXK && j < k);
    let w2 = crate::model::ONE.shl(W::new(0, k as u128)).or(crate::model::ONE.shl(W::new(0, j as u128)));
    let got = MulShiftedValue::which_power_of_2(kw(w2));
    s.reached();
    assert!(got.is_none(), "C12 pow2: a non-power of two is reported as a power of two");
}
