//! Reference semantics of the EVM word operations, written from the Yellow Paper
//! over two 128-bit limbs.  Deliberately independent of ethnum's `U256` operators
//! (only `u128` arithmetic is used), except for the multiplier / divider *cores*,
//! which are shared with the implementation (uninterpreted under Kani, ethnum's
//! real ones natively) — see `stubs.rs`.

use ethnum::U256;

#[derive(Clone, Copy, PartialEq, Eq, Debug)]
pub struct W {
    pub hi: u128,
    pub lo: u128,
}

pub const ZERO: W = W { hi: 0, lo: 0 };
pub const ONE: W = W { hi: 0, lo: 1 };
pub const MAX: W = W { hi: u128::MAX, lo: u128::MAX };
pub const SIGN: u128 = 1u128 << 127;

impl W {
    pub fn new(hi: u128, lo: u128) -> Self {
        W { hi, lo }
    }
    pub fn from_u256(x: U256) -> Self {
        W { hi: *x.high(), lo: *x.low() }
    }
    pub fn to_u256(self) -> U256 {
        U256::from_words(self.hi, self.lo)
    }
    pub fn from_bool(b: bool) -> Self {
        W { hi: 0, lo: b as u128 }
    }
    pub fn is_zero(self) -> bool {
        self.hi == 0 && self.lo == 0
    }
    pub fn neg_bit(self) -> bool {
        self.hi & SIGN != 0
    }
    pub fn add(self, o: W) -> W {
        let (lo, c) = self.lo.overflowing_add(o.lo);
        let hi = self.hi.wrapping_add(o.hi).wrapping_add(c as u128);
        W { hi, lo }
    }
    pub fn sub(self, o: W) -> W {
        let (lo, b) = self.lo.overflowing_sub(o.lo);
        let hi = self.hi.wrapping_sub(o.hi).wrapping_sub(b as u128);
        W { hi, lo }
    }
    pub fn not(self) -> W {
        W { hi: !self.hi, lo: !self.lo }
    }
    pub fn neg(self) -> W {
        self.not().add(ONE)
    }
    pub fn and(self, o: W) -> W {
        W { hi: self.hi & o.hi, lo: self.lo & o.lo }
    }
    pub fn or(self, o: W) -> W {
        W { hi: self.hi | o.hi, lo: self.lo | o.lo }
    }
    pub fn xor(self, o: W) -> W {
        W { hi: self.hi ^ o.hi, lo: self.lo ^ o.lo }
    }
    pub fn ult(self, o: W) -> bool {
        self.hi < o.hi || (self.hi == o.hi && self.lo < o.lo)
    }
    pub fn ugt(self, o: W) -> bool {
        o.ult(self)
    }
    pub fn slt(self, o: W) -> bool {
        match (self.neg_bit(), o.neg_bit()) {
            (true, false) => true,
            (false, true) => false,
            _ => self.ult(o),
        }
    }
    pub fn sgt(self, o: W) -> bool {
        o.slt(self)
    }
    /// `self << n` with EVM semantics: 0 for n >= 256.
    pub fn shl(self, n: W) -> W {
        if n.hi != 0 || n.lo >= 256 {
            return ZERO;
        }
        let n = n.lo as u32;
        if n == 0 {
            self
        } else if n < 128 {
            W { hi: (self.hi << n) | (self.lo >> (128 - n)), lo: self.lo << n }
        } else if n == 128 {
            W { hi: self.lo, lo: 0 }
        } else {
            W { hi: self.lo << (n - 128), lo: 0 }
        }
    }
    /// Logical `self >> n`: 0 for n >= 256.
    pub fn shr(self, n: W) -> W {
        if n.hi != 0 || n.lo >= 256 {
            return ZERO;
        }
        let n = n.lo as u32;
        if n == 0 {
            self
        } else if n < 128 {
            W { hi: self.hi >> n, lo: (self.lo >> n) | (self.hi << (128 - n)) }
        } else if n == 128 {
            W { hi: 0, lo: self.hi }
        } else {
            W { hi: 0, lo: self.hi >> (n - 128) }
        }
    }
    /// Arithmetic `self >> n`: sign fill; 0 / -1 for n >= 256.
    pub fn sar(self, n: W) -> W {
        let neg = self.neg_bit();
        if n.hi != 0 || n.lo >= 256 {
            return if neg { MAX } else { ZERO };
        }
        let logical = self.shr(n);
        if !neg || n.lo == 0 {
            return logical;
        }
        // fill the top n bits with ones: mask = !(MAX >> n)
        let fill = MAX.shr(n).not();
        logical.or(fill)
    }
    pub fn abs(self) -> W {
        if self.neg_bit() {
            self.neg()
        } else {
            self
        }
    }
}

// --- operations built on the shared multiplier / divider cores ----------------------

/// Low 256 bits of a*b via the shared core.
pub fn core_mul(a: W, b: W) -> W {
    #[cfg(kani)]
    {
        let (v, _) = crate::stubs::uf_mul(&a.to_u256(), &b.to_u256());
        W::from_u256(v)
    }
    #[cfg(not(kani))]
    {
        W::from_u256(a.to_u256().wrapping_mul(b.to_u256()))
    }
}

/// (a / b, a % b) for b != 0 via the shared core.
pub fn core_divmod(a: W, b: W) -> (W, W) {
    #[cfg(kani)]
    {
        let (q, r) = crate::stubs::uf_divmod(&a.to_u256(), &b.to_u256());
        (W::from_u256(q), W::from_u256(r))
    }
    #[cfg(not(kani))]
    {
        let (a, b) = (a.to_u256(), b.to_u256());
        (W::from_u256(a / b), W::from_u256(a % b))
    }
}

pub fn mul(a: W, b: W) -> W {
    core_mul(a, b)
}
pub fn div(a: W, b: W) -> W {
    if b.is_zero() {
        ZERO
    } else {
        core_divmod(a, b).0
    }
}
pub fn rem(a: W, b: W) -> W {
    if b.is_zero() {
        ZERO
    } else {
        core_divmod(a, b).1
    }
}
/// SDIV: truncated signed division, 0 for divisor 0, MIN / -1 = MIN.
pub fn sdiv(a: W, b: W) -> W {
    if b.is_zero() {
        return ZERO;
    }
    let q = core_divmod(a.abs(), b.abs()).0;
    if a.neg_bit() != b.neg_bit() {
        q.neg()
    } else {
        q
    }
}
/// SMOD: sign follows the dividend, 0 for divisor 0.
pub fn smod(a: W, b: W) -> W {
    if b.is_zero() {
        return ZERO;
    }
    let r = core_divmod(a.abs(), b.abs()).1;
    if a.neg_bit() {
        r.neg()
    } else {
        r
    }
}
