#!/bin/bash
# Offline setup: nothing is fetched.  Warm the build caches the checks use.
set -e
cd "$(dirname "$0")"
export CARGO_NET_OFFLINE=true
mkdir -p .work evidence cex
[ -f kani/Cargo.lock ] || cp /repo/Cargo.lock kani/Cargo.lock
python3-vt -c "import z3; print('z3', z3.get_version_string())"
python3-vt -m vlib.catalog
python3-vt -m vlib.gen_nodes
cargo kani --version
echo setup ok
