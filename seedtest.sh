#!/bin/bash
# usage: seedtest.sh <seed dir> <check ids...>   applies the patch to /repo, runs the checks, undoes it
d=$(cd "$1" && pwd); shift
cd /repo && git status --porcelain --untracked-files=no | grep -q . && { echo "repo dirty"; exit 3; }
git -C /repo apply "$d/patch.diff" || { echo "patch does not apply"; exit 3; }
for c in "$@"; do
  (cd /verif && ./check $c --tier ${TIER:-quick} 2>&1 | grep -E "^VIOLATION|^RESULT|^INCONCL|^KNOWN|what:" | cut -c1-260)
done
git -C /repo checkout -- .
