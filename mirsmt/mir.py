"""Parser for rustc's `-Zunpretty=mir` text dump (dev profile, overflow checks on).

Only structure is parsed eagerly (functions, locals, basic blocks, raw statement /
terminator text); statements, places and operands are parsed on demand and cached."""
import re


class Fn:
    def __init__(self, name, header):
        self.name = name
        self.header = header
        self.args = []        # [(local id, type str)]
        self.ret = None
        self.locals = {}      # id -> type str
        self.blocks = {}      # id -> Block
        self.debug = {}       # source variable name -> local id (first binding wins)
        self.line = 0


class Block:
    def __init__(self):
        self.stmts = []
        self.term = None
        self.cleanup = False


def split_top(s, sep=","):
    """Split at `sep` occurring at nesting depth 0 of () [] {} <>; string literals skipped."""
    out, depth, cur, i = [], 0, [], 0
    n = len(s)
    while i < n:
        c = s[i]
        if c == '"':
            j = i + 1
            while j < n and s[j] != '"':
                j += 2 if s[j] == "\\" else 1
            cur.append(s[i:j + 1])
            i = j + 1
            continue
        if c in "([{":
            depth += 1
        elif c in ")]}":
            depth -= 1
        elif c == "<":
            depth += 1
        elif c == ">" and i > 0 and s[i - 1] not in "-=":
            depth -= 1
        if c == sep and depth == 0:
            out.append("".join(cur).strip())
            cur = []
        else:
            cur.append(c)
        i += 1
    t = "".join(cur).strip()
    if t:
        out.append(t)
    return out


_FN = re.compile(r"^fn (.+?)\((.*)\) -> (.+) \{$")


def parse(path):
    fns = {}
    cur = None
    blk = None
    with open(path) as f:
        for ln, line in enumerate(f, 1):
            line = line.rstrip("\n")
            if cur is None:
                if line.startswith("fn "):
                    m = _FN.match(line)
                    if not m:
                        continue
                    cur = Fn(m.group(1), line)
                    cur.line = ln
                    cur.ret = m.group(3)
                    for a in split_top(m.group(2)):
                        mm = re.match(r"^(_\d+): (.*)$", a)
                        if mm:
                            cur.args.append((mm.group(1), mm.group(2)))
                            cur.locals[mm.group(1)] = mm.group(2)
                    cur.locals["_0"] = cur.ret
                elif line.startswith("const ") and line.endswith("= {"):
                    m = re.match(r"^const (.+::promoted\[\d+\]): (.+) = \{$", line)
                    if m:
                        cur = Fn(m.group(1), line)
                        cur.line = ln
                        cur.ret = m.group(2)
                        cur.locals["_0"] = cur.ret
                continue
            if line == "}":
                fns.setdefault(cur.name, cur)
                cur, blk = None, None
                continue
            s = line.strip()
            if blk is None:
                m = re.match(r"^let (?:mut )?(_\d+): (.*);$", s)
                if m:
                    cur.locals[m.group(1)] = m.group(2)
                    continue
                m = re.match(r"^debug (\w+) => (_\d+);$", s)
                if m:
                    cur.debug.setdefault(m.group(1), m.group(2))
                    continue
                m = re.match(r"^(bb\d+)(?: \(cleanup\))?: \{$", s)
                if m:
                    blk = Block()
                    blk.cleanup = "(cleanup)" in s
                    cur.blocks[m.group(1)] = blk
                continue
            if s == "}":
                blk = None
                continue
            if not s:
                continue
            blk.stmts.append(s)
    for f in fns.values():
        for b in f.blocks.values():
            if b.stmts:
                b.term = b.stmts.pop()
    return fns


# ---------------------------------------------------------------------------------------
# places / operands
# ---------------------------------------------------------------------------------------
def _match_paren(s, i):
    """index of the parenthesis matching s[i] == '('."""
    depth = 0
    j = i
    n = len(s)
    while j < n:
        c = s[j]
        if c == '"':
            j += 1
            while j < n and s[j] != '"':
                j += 2 if s[j] == "\\" else 1
        elif c in "([{":
            depth += 1
        elif c in ")]}":
            depth -= 1
            if depth == 0:
                return j
        j += 1
    raise ValueError("unbalanced: " + s)


_place_cache = {}


def parse_place(s):
    """-> ('local', id) | ('deref', p) | ('field', p, idx, type) | ('downcast', p, variant)
         | ('index', p, operand-place) | ('cindex', p, i, from_end)"""
    s = s.strip()
    if s in _place_cache:
        return _place_cache[s]
    r = _parse_place(s)
    _place_cache[s] = r
    return r


def _parse_place(s):
    # trailing index projections
    if s.endswith("]") and not s.startswith("["):
        # find the matching '[' of the final ']'
        depth = 0
        for j in range(len(s) - 1, -1, -1):
            if s[j] == "]":
                depth += 1
            elif s[j] == "[":
                depth -= 1
                if depth == 0:
                    break
        base, idx = s[:j], s[j + 1:-1]
        m = re.match(r"^(-?\d+) of (\d+)$", idx)
        if m:
            return ("cindex", parse_place(base), int(m.group(1)), False)
        if re.match(r"^_\d+$", idx):
            return ("index", parse_place(base), idx)
        return ("subslice", parse_place(base), idx)
    if re.match(r"^_\d+$", s):
        return ("local", s)
    if s.startswith("(") and _match_paren(s, 0) == len(s) - 1:
        inner = s[1:-1]
        if inner.startswith("*"):
            return ("deref", parse_place(inner[1:]))
        # base
        if inner.startswith("("):
            k = _match_paren(inner, 0) + 1
        else:
            k = re.match(r"^_\d+", inner).end()
        while k < len(inner) and inner[k] == "[":
            d = 0
            for j in range(k, len(inner)):
                if inner[j] == "[":
                    d += 1
                elif inner[j] == "]":
                    d -= 1
                    if d == 0:
                        break
            k = j + 1
        base, rest = inner[:k], inner[k:]
        if rest.startswith(" as "):
            return ("downcast", parse_place(base), rest[4:].strip())
        m = re.match(r"^\.(\d+): (.*)$", rest, re.S)
        if m:
            return ("field", parse_place(base), int(m.group(1)), m.group(2))
        if rest == "":
            return parse_place(base)
    raise ValueError("cannot parse place: %r" % s)


def parse_operand(s):
    """-> ('copy'|'move', place) | ('const', text)"""
    s = s.strip()
    if s.startswith("copy "):
        return ("copy", parse_place(s[5:]))
    if s.startswith("move "):
        return ("move", parse_place(s[5:]))
    if s.startswith("const "):
        return ("const", s[6:].strip())
    return ("fnitem", s)


_TERM_CALL = re.compile(r"^(?:(.+?) = )?(.+)\((.*)\) -> (\[.*\]|unwind .*)$", re.S)


def parse_term(t):
    """-> dict(kind=..., ...)"""
    t = t.rstrip(";")
    if t == "return":
        return {"kind": "return"}
    if t == "unreachable":
        return {"kind": "unreachable"}
    if t.startswith("resume") or t.startswith("terminate") or t.startswith("abort"):
        return {"kind": "resume"}
    m = re.match(r"^goto -> (bb\d+)$", t)
    if m:
        return {"kind": "goto", "target": m.group(1)}
    m = re.match(r"^falseEdge -> \[real: (bb\d+),", t)
    if m:
        return {"kind": "goto", "target": m.group(1)}
    m = re.match(r"^falseUnwind -> \[real: (bb\d+),", t)
    if m:
        return {"kind": "goto", "target": m.group(1)}
    m = re.match(r"^switchInt\((.*)\) -> \[(.*)\]$", t, re.S)
    if m:
        targets = []
        other = None
        for part in split_top(m.group(2)):
            k, v = part.split(": ")
            if k == "otherwise":
                other = v
            else:
                targets.append((int(k), v))
        return {"kind": "switch", "op": parse_operand(m.group(1)), "targets": targets, "otherwise": other}
    m = re.match(r"^drop\((.*)\) -> \[return: (bb\d+)", t)
    if m:
        return {"kind": "drop", "place": m.group(1), "target": m.group(2)}
    m = re.match(r"^assert\((.*)\) -> \[success: (bb\d+)", t, re.S)
    if m:
        parts = split_top(m.group(1))
        cond = parts[0]
        neg = cond.startswith("!")
        if neg:
            cond = cond[1:]
        return {"kind": "assert", "neg": neg, "cond": parse_operand(cond), "msg": parts[1] if len(parts) > 1 else "",
                "args": parts[2:], "target": m.group(2)}
    # call: [dest = ] callee(args) -> [return: bbN, unwind ...]   or  -> unwind ... (diverging)
    if " -> " in t:
        head, tail = t.rsplit(" -> ", 1)
        ret = None
        mm = re.search(r"return: (bb\d+)", tail)
        if mm:
            ret = mm.group(1)
        dest = None
        # split dest
        m = re.match(r"^((?:_\d+|\(.*?\))(?:\[.*?\])*) = (.*)$", head, re.S)
        body = head
        if m and not head.startswith("<") :
            # make sure the lhs is a place (balanced)
            lhs = m.group(1)
            try:
                parse_place(lhs)
                dest, body = lhs, m.group(2)
            except Exception:
                pass
        # callee(args): args = final balanced paren group
        if body.endswith(")"):
            depth = 0
            for j in range(len(body) - 1, -1, -1):
                if body[j] == ")":
                    depth += 1
                elif body[j] == "(":
                    depth -= 1
                    if depth == 0:
                        break
            callee, args = body[:j], body[j + 1:-1]
            return {"kind": "call", "dest": dest, "callee": callee.strip(), "args": [parse_operand(a) for a in split_top(args)],
                    "target": ret}
    raise ValueError("cannot parse terminator: %r" % t)
