"""Light-weight facts read from /repo's Rust sources (regenerated on every run):
enum variant order + field names, struct field names, integer constants, impl headers."""
import os
import re


def _strip_comments(s):
    s = re.sub(r"//[^\n]*", "", s)
    s = re.sub(r"/\*.*?\*/", "", s, flags=re.S)
    return s


def _match_brace(s, i, open_="{", close="}"):
    d = 0
    for j in range(i, len(s)):
        if s[j] == open_:
            d += 1
        elif s[j] == close:
            d -= 1
            if d == 0:
                return j
    return -1


def _split0(s):
    out, d, cur = [], 0, []
    for c in s:
        if c in "([{<":
            d += 1
        elif c in ")]}>":
            d -= 1
        if c == "," and d == 0:
            out.append("".join(cur))
            cur = []
        else:
            cur.append(c)
    if "".join(cur).strip():
        out.append("".join(cur))
    return out


def _clean_item(t):
    t = re.sub(r"#\[[^\]]*\]", "", t, flags=re.S)   # attributes (no nested brackets handled separately)
    return t.strip()


class SrcInfo:
    def __init__(self, root):
        self.root = root
        self.enums = {}     # name -> [(variant, [field names] | int(count) | None)]
        self.structs = {}   # name -> [field names]
        self.consts = {}    # name -> int
        self.files = {}     # relpath -> [lines]
        for dp, _, fs in os.walk(os.path.join(root, "src")):
            for f in fs:
                if f.endswith(".rs"):
                    self._load(os.path.join(dp, f))
        self.resolve_const_exprs()

    def _load(self, path):
        with open(path) as f:
            raw = f.read()
        rel = os.path.relpath(path, self.root)
        self.files[rel] = raw.split("\n")
        mod = rel[len("src/"):-len(".rs")].replace("/", "::")
        if mod.endswith("::mod"):
            mod = mod[:-5]
        if mod in ("lib", "mod"):
            mod = ""
        q = (mod + "::") if mod else ""
        s = _strip_comments(raw)
        # strip nested attribute brackets like #[derivative(Debug(bound = "..."))]
        s = re.sub(r"#\[(?:[^\[\]]|\[[^\]]*\])*\]", "", s, flags=re.S)
        for m in re.finditer(r"\benum\s+(\w+)\s*(?:<[^{]*>)?\s*(?:where[^{]*)?\{", s):
            j = _match_brace(s, m.end() - 1)
            body = s[m.end():j]
            vs = []
            for item in _split0(body):
                item = _clean_item(item)
                if not item:
                    continue
                mm = re.match(r"^(\w+)\s*(\{.*\}|\(.*\))?\s*(=.*)?$", item, re.S)
                if not mm:
                    continue
                name, payload = mm.group(1), mm.group(2)
                if payload is None:
                    vs.append((name, None))
                elif payload.startswith("{"):
                    fields = []
                    for fitem in _split0(payload[1:-1]):
                        fm = re.match(r"^\s*(?:pub(?:\([^)]*\))?\s+)?(\w+)\s*:", _clean_item(fitem))
                        if fm:
                            fields.append(fm.group(1))
                    vs.append((name, fields))
                else:
                    vs.append((name, len(_split0(payload[1:-1]))))
            self.enums.setdefault(q + m.group(1), vs)
        for m in re.finditer(r"\bstruct\s+(\w+)\s*(?:<[^{;(]*>)?\s*(?:where[^{]*)?\{", s):
            j = _match_brace(s, m.end() - 1)
            body = s[m.end():j]
            fields = []
            for fitem in _split0(body):
                fm = re.match(r"^\s*(?:pub(?:\([^)]*\))?\s+)?(\w+)\s*:", _clean_item(fitem))
                if fm:
                    fields.append(fm.group(1))
            self.structs.setdefault(q + m.group(1), fields)
        for m in re.finditer(r"\bconst\s+(\w+)\s*:\s*(\w+)\s*=\s*([^;]+);", s):
            v = m.group(3).strip().replace("_", "")
            try:
                if re.match(r"^0x[0-9a-fA-F]+$", v):
                    self.consts[m.group(1)] = (int(v, 16), m.group(2))
                elif re.match(r"^\d+$", v):
                    self.consts[m.group(1)] = (int(v), m.group(2))
                elif re.match(r"^\d+\s*(usize|u8|u16|u32|u64|u128)$", v):
                    self.consts[m.group(1)] = (int(re.match(r"^\d+", v).group(0)), m.group(2))
                else:
                    self._const_exprs = getattr(self, "_const_exprs", {})
                    self._const_exprs.setdefault(m.group(1), (m.group(3).strip(), m.group(2)))
            except ValueError:
                pass

    def resolve_const_exprs(self):
        """constants defined by arithmetic over other integer constants (`A / B`, `A * 8`, `1 << 10`)"""
        pending = dict(getattr(self, "_const_exprs", {}))
        for _ in range(4):
            for name, (expr, ty) in list(pending.items()):
                if name in self.consts or ty not in ("usize", "u8", "u16", "u32", "u64", "u128", "isize", "i32", "i64"):
                    pending.pop(name, None)
                    continue
                e = re.sub(r"\b(\d[\d_]*)(usize|u8|u16|u32|u64|u128)\b", r"\1", expr).replace("_", "") if False else expr
                e = re.sub(r"(?<=\d)_(?=\d)", "", e)
                e = re.sub(r"\b(\d+)(usize|u8|u16|u32|u64|u128)\b", r"\1", e)
                e = re.sub(r"\b(?:\w+::)+(\w+)\b", r"\1", e)
                names = set(re.findall(r"\b[A-Z][A-Z0-9_]*\b", e))
                if not names <= set(self.consts):
                    continue
                for nme in names:
                    e = re.sub(r"\b%s\b" % nme, str(self.consts[nme][0]), e)
                if not re.match(r"^[\d\s()+\-*/%<>]+$", e):
                    pending.pop(name, None)
                    continue
                try:
                    self.consts[name] = (int(eval(e.replace("/", "//"), {"__builtins__": {}})), ty)
                except Exception:
                    pass
                pending.pop(name, None)

    # -- lookups -----------------------------------------------------------------------
    @staticmethod
    def _norm(ty):
        ty = re.sub(r"<.*$", "", ty.strip())      # drop generics
        ty = re.sub(r"^(crate|storage_layout_extractor)::", "", ty)
        return ty

    def _find(self, table, ty):
        ty = self._norm(ty)
        if ty in table:
            return table[ty]
        c = [k for k in table if k.endswith("::" + ty)]
        if len(c) == 1:
            return table[c[0]]
        if len(c) > 1:
            # prefer the shortest qualified name (closest to the crate root)
            return table[sorted(c, key=len)[0]]
        # std enums
        return None

    def variants(self, enum):
        n = self._norm(enum)
        std = {"Option": [("None", None), ("Some", 1)], "Result": [("Ok", 1), ("Err", 1)],
               "ControlFlow": [("Continue", 1), ("Break", 1)], "Ordering": [("Less", None), ("Equal", None), ("Greater", None)]}
        last = n.split("::")[-1]
        if last in std and (n.startswith("std::") or n.startswith("core::") or "::" not in n):
            return std[last]
        return self._find(self.enums, enum)

    def variant_index(self, enum, variant):
        vs = self.variants(enum)
        if vs is None:
            return None
        for i, (n, _) in enumerate(vs):
            if n == variant:
                return i
        return None

    def field_index(self, ty, field, variant=None):
        if variant is not None:
            vs = self.variants(ty)
            if vs:
                for n, fs in vs:
                    if n == variant and isinstance(fs, list):
                        return fs.index(field) if field in fs else None
            return None
        fs = self._find(self.structs, ty)
        if fs and field in fs:
            return fs.index(field)
        std = {"Range": ["start", "end"], "RangeInclusive": ["start", "end", "exhausted"], "RangeFrom": ["start"], "RangeTo": ["end"]}
        last = self._norm(ty).split("::")[-1]
        if last in std and field in std[last]:
            return std[last].index(field)
        return None

    def field_name(self, ty, idx, variant=None):
        if variant is not None:
            vs = self.variants(ty) or []
            for n, fs in vs:
                if n == variant and isinstance(fs, list) and idx < len(fs):
                    return fs[idx]
            return str(idx)
        fs = self._find(self.structs, ty)
        return fs[idx] if fs and idx < len(fs) else str(idx)

    def impl_header(self, file, line):
        """Text of the `impl ...` header (or derive target) at file:line."""
        ls = self.files.get(file)
        if not ls or line < 1 or line > len(ls):
            return ""
        t = ls[line - 1].strip()
        if t.startswith("#["):
            # derive: the item follows the attributes
            for k in range(line, min(line + 40, len(ls))):
                u = ls[k].strip()
                m = re.match(r"^(?:pub(?:\([^)]*\))?\s+)?(struct|enum)\s+(\w+)", u)
                if m:
                    return "derive " + t + " for " + m.group(2)
            return t
        k = line
        while "{" not in t and k < len(ls):
            t += " " + ls[k].strip()
            k += 1
        return t.split("{")[0].strip()
