"""Summaries of std / ethnum callees (the hand-written trusted base of Engine B).

Each entry: (pattern, fn(ctx, args, ret_ty, callee) -> value).  A summary may fork
(ctx.branch) and may return NotImplemented to fall through to inlining."""
import re

import z3

from .interp import (Agg, Bool, Cell, FnItem, Int, Lazy, Obj, PathEnd, Ref, UNIT, Unsupported, INT_TYPES,
                     deref_type, type_args, type_head, strip_generics)

S = []


def summary(pat, first=False):
    def deco(f):
        e = (re.compile(pat) if not pat.startswith("@") else pat, f)
        if first:
            S.insert(0, e)
        else:
            S.append(e)
        return f
    return deco


# ---- helpers ------------------------------------------------------------------------------
def deref(ctx, r):
    """value behind a reference (materialising lazies)."""
    if isinstance(r, Lazy):
        # unknown reference: create target
        tgt = Cell(Lazy(deref_type(r.ty), r.name + ".*"), r.name + ".*")
        return tgt, ()
    if isinstance(r, Ref):
        return r.cell, r.path
    raise Unsupported("deref of non-reference %r" % (r,))


def load(ctx, r):
    if isinstance(r, Ref) or isinstance(r, Lazy) and r.ty.strip().startswith(("&", "*")):
        c, p = deref(ctx, r)
        return ctx.read(c, p)
    return ctx.force(r)


def store(ctx, r, v):
    c, p = deref(ctx, r)
    ctx.write(c, p, v)


def obj_at(ctx, r, maker):
    """The library object behind reference r; a Lazy there is replaced by maker(lazy)."""
    c, p = deref(ctx, r)
    v = ctx.read(c, p)
    if isinstance(v, Lazy):
        v = maker(v)
        ctx.write(c, p, v)
    return v


def some(ty, v):
    return Agg(ty if ty != "?" else "std::option::Option", {0: v}, "Some")


def none(ty):
    return Agg(ty if ty != "?" else "std::option::Option", {}, "None")


def ok(ty, v):
    return Agg(ty if ty != "?" else "std::result::Result", {0: v}, "Ok")


def err(ty, v):
    return Agg(ty if ty != "?" else "std::result::Result", {0: v}, "Err")


def enum_variant(ctx, v):
    v2, name, _ = ctx.variant_of(v)
    return v2, name


def payload(ctx, v, idx=0):
    """field idx of an enum variant value (materialising)."""
    if idx not in v.fields:
        if v.name is None:
            raise Unsupported("payload of %r" % (v,))
        args = type_args(v.ty)
        fty = "?"
        h = type_head(v.ty)
        if h == "Option" and args:
            fty = args[0]
        elif h == "Result" and len(args) == 2:
            fty = args[0] if v.variant == "Ok" else args[1]
        elif h == "ControlFlow" and len(args) >= 1:
            fty = (args[1] if len(args) > 1 else "()") if v.variant == "Continue" else args[0]
        v.fields[idx] = Lazy(fty, "%s.%s.%d" % (v.name, v.variant, idx))
    v.fields[idx] = ctx.force(v.fields[idx])
    return v.fields[idx]


def call_closure(ctx, f, args):
    """Call a closure / fn item value with positional args (closure env first in MIR)."""
    for _ in range(3):          # `&F` / `&&F`: callable through a reference
        if isinstance(f, Ref):
            f = load(ctx, f)
        else:
            break
    if isinstance(f, FnItem):
        return ctx.call(f.name, args, "?")
    if isinstance(f, Agg) and f.ty.startswith("{closure@"):
        m = re.match(r"^\{closure@(src/[^:]+):(\d+):(\d+): (\d+):(\d+)\}$", f.ty)
        key = f.ty
        fn = ctx.callres.closure(key) if hasattr(ctx.callres, "closure") else None
        if fn is None:
            raise Unsupported("closure body not found: " + f.ty)
        env_ty = fn.args[0][1]
        env = f
        if env_ty.startswith("&"):
            env = Ref(Cell(f, "closure-env"), (), env_ty.startswith("&mut"))
        if len(fn.args) == 2 and len(args) != 1 and not fn.args[1][1].startswith("("):
            pass
        return ctx.run_fn(fn, [env] + list(args))
    raise Unsupported("call of %r" % (f,))


# ---- calling a closure / fn item through the Fn traits -----------------------------------------
@summary(r"^<.* as Fn(Mut|Once)?<\(.*\)>>::call(_mut|_once)?$")
def _fn_call_trait(ctx, a, ty, c):
    f = a[0]
    packed = a[1] if len(a) > 1 else None
    args = []
    if isinstance(packed, Agg):
        args = [packed.fields[i] for i in sorted(packed.fields)]
    elif packed is not None and packed is not UNIT:
        raise Unsupported("Fn::call with unpacked arguments %r" % (packed,))
    return call_closure(ctx, f, args)


@summary(r"^Arc::<.*>::ptr_eq$|^Rc::<.*>::ptr_eq$")
def _ptr_eq(ctx, a, ty, c):
    # two handles may or may not share an allocation: both outcomes are explored (same allocation => same value)
    x, y = a[0], a[1]
    lx = load(ctx, x) if isinstance(x, Ref) else x
    ly = load(ctx, y) if isinstance(y, Ref) else y
    if lx is ly:
        return Bool(True)
    return Bool(ctx.choose(2) == 0)


@summary(r"^(std::ops::|core::ops::)?RangeInclusive::<(u\d+|usize)>::new$")
def _range_inclusive_new(ctx, a, ty, c):
    return Agg(ty, {0: a[0], 1: a[1], 2: Bool(False)})


# ---- integers -------------------------------------------------------------------------------
@summary(r"^core::num::<impl \w+>::saturating_add$")
def _sat_add(ctx, a, ty, c):
    x, y = ctx.force(a[0]), ctx.force(a[1])
    r = x.e + y.e
    ovf = z3.ULT(r, x.e)
    return Int(z3.If(ovf, z3.BitVecVal(-1, x.bits), r), x.bits, x.signed)


@summary(r"^core::num::<impl \w+>::saturating_sub$")
def _sat_sub(ctx, a, ty, c):
    x, y = ctx.force(a[0]), ctx.force(a[1])
    return Int(z3.If(z3.ULT(x.e, y.e), z3.BitVecVal(0, x.bits), x.e - y.e), x.bits, x.signed)


@summary(r"^core::num::<impl \w+>::(to_le|from_le)$")
def _to_le(ctx, a, ty, c):
    # the MIR is dumped for a little-endian target
    return ctx.force(a[0])


@summary(r"^core::num::<impl (u\d+|usize)>::saturating_mul$")
def _sat_mul(ctx, a, ty, c):
    x, y = ctx.force(a[0]), ctx.force(a[1])
    wide = z3.ZeroExt(x.bits, x.e) * z3.ZeroExt(x.bits, y.e)
    ovf = z3.Extract(2 * x.bits - 1, x.bits, wide) != 0
    return Int(z3.If(ovf, z3.BitVecVal(-1, x.bits), z3.Extract(x.bits - 1, 0, wide)), x.bits, x.signed)


@summary(r"^<&?(u\d+|usize) as (std::ops::|core::ops::)?(Add|Sub|Mul)(<&?(u\d+|usize)>)?>::(add|sub|mul)$")
def _ref_arith(ctx, a, ty, c):
    # arithmetic on references to unsigned integers (`*a + *b` written as `a + b`): overflow panics as in the dev profile
    x = ctx.force(load(ctx, a[0]) if isinstance(a[0], Ref) else a[0])
    y = ctx.force(load(ctx, a[1]) if isinstance(a[1], Ref) else a[1])
    op = c.rsplit("::", 1)[-1]
    w = x.bits
    if op == "add":
        r = x.e + y.e
        ovf = z3.ULT(r, x.e)
    elif op == "sub":
        r = x.e - y.e
        ovf = z3.ULT(x.e, y.e)
    else:
        wide = z3.ZeroExt(w, x.e) * z3.ZeroExt(w, y.e)
        r = z3.Extract(w - 1, 0, wide)
        ovf = z3.Extract(2 * w - 1, w, wide) != 0
    if ctx.branch([z3.Not(ovf), ovf]) == 1:
        raise PathEnd("panic", "MIR assert: attempt to %s with overflow (operator on references)" % op)
    return Int(r, w, x.signed)


@summary(r"^core::num::<impl (u\d+|usize)>::div_ceil$")
def _div_ceil(ctx, a, ty, c):
    x, y = ctx.force(a[0]), ctx.force(a[1])
    nz = y.e != 0
    if ctx.branch([nz, z3.Not(nz)]) == 1:
        raise PathEnd("panic", "MIR assert: attempt to divide by zero (div_ceil)")
    q = z3.UDiv(x.e, y.e)
    return Int(z3.If(z3.URem(x.e, y.e) != 0, q + 1, q), x.bits, x.signed)


@summary(r"^core::num::<impl (u\d+|usize)>::next_multiple_of$")
def _next_multiple_of(ctx, a, ty, c):
    x, y = ctx.force(a[0]), ctx.force(a[1])
    nz = y.e != 0
    if ctx.branch([nz, z3.Not(nz)]) == 1:
        raise PathEnd("panic", "MIR assert: attempt to calculate the remainder with a divisor of zero (next_multiple_of)")
    r = z3.URem(x.e, y.e)
    add = z3.If(r == 0, z3.BitVecVal(0, x.bits), y.e - r)
    res = x.e + add
    ovf = z3.ULT(res, x.e)
    if ctx.branch([z3.Not(ovf), ovf]) == 1:
        raise PathEnd("panic", "MIR assert: attempt to add with overflow (next_multiple_of)")
    return Int(res, x.bits, x.signed)


@summary(r"^core::num::<impl \w+>::wrapping_(add|sub)$")
def _wrap(ctx, a, ty, c):
    x, y = ctx.force(a[0]), ctx.force(a[1])
    return Int(x.e + y.e if c.endswith("add") else x.e - y.e, x.bits, x.signed)


@summary(r"^<(u\d+|usize|i\d+) as TryFrom<(u\d+|usize|i\d+)>>::try_from$|^<(u\d+|usize|i\d+) as TryInto<(u\d+|usize|i\d+)>>::try_into$")
def _try_from(ctx, a, ty, c):
    m = re.match(r"^<(\w+) as (TryFrom|TryInto)<(\w+)>>", c)
    dst = m.group(1) if m.group(2) == "TryFrom" else m.group(3)
    tb = INT_TYPES[dst][0]
    x = ctx.force(a[0])
    if x.signed or INT_TYPES[dst][1]:
        # signed conversions: value must be representable in the destination
        sx = z3.SignExt(128 - x.bits, x.e) if x.signed else z3.ZeroExt(128 - x.bits, x.e)
        lo = -(1 << (tb - 1)) if INT_TYPES[dst][1] else 0
        hi = (1 << (tb - 1)) - 1 if INT_TYPES[dst][1] else (1 << tb) - 1
        fits = z3.And(sx >= z3.BitVecVal(lo, 128), sx <= z3.BitVecVal(hi, 128))
        if ctx.branch([fits, z3.Not(fits)]) == 0:
            return ok(ty, Int(z3.Extract(tb - 1, 0, sx), tb, INT_TYPES[dst][1]))
        return err(ty, Obj("TryFromIntError"))
    if tb >= x.bits:
        return ok(ty, Int(z3.ZeroExt(tb - x.bits, x.e) if tb > x.bits else x.e, tb))
    fits = z3.ULE(x.e, z3.BitVecVal((1 << tb) - 1, x.bits))
    if ctx.branch([fits, z3.Not(fits)]) == 0:
        return ok(ty, Int(z3.Extract(tb - 1, 0, x.e), tb))
    return err(ty, Obj("TryFromIntError"))


@summary(r"^<(u\d+|usize|i\d+) as (From|Into)<(u\d+|usize|i\d+)>>::(from|into)$")
def _from_int(ctx, a, ty, c):
    m = re.match(r"^<(\w+) as (From|Into)<(\w+)>>", c)
    dst = m.group(1) if m.group(2) == "From" else m.group(3)
    tb, sg = INT_TYPES[dst]
    x = ctx.force(a[0])
    if tb == x.bits:
        return Int(x.e, tb, sg)
    return Int((z3.SignExt if x.signed else z3.ZeroExt)(tb - x.bits, x.e), tb, sg)


@summary(r"^<&?(u\d+|usize) as Partial(Ord|Eq)(<&?(u\d+|usize)>)?>::(lt|le|gt|ge|eq|ne)$|^std::cmp::impls::<impl Partial(Ord|Eq)<&\w+> for &\w+>::(lt|le|gt|ge|eq|ne)$")
def _cmp_ref(ctx, a, ty, c):
    x, y = load(ctx, a[0]), load(ctx, a[1])
    while isinstance(x, (Ref,)):
        x = load(ctx, x)
    while isinstance(y, (Ref,)):
        y = load(ctx, y)
    x, y = ctx.force(x), ctx.force(y)
    op = c.rsplit("::", 1)[1]
    f = {"lt": z3.ULT, "le": z3.ULE, "gt": z3.UGT, "ge": z3.UGE, "eq": lambda p, q: p == q, "ne": lambda p, q: p != q}[op]
    return Bool(f(x.e, y.e))


# ---- Option / Result / Try --------------------------------------------------------------------
@summary(r"^<Result<.*> as Try>::branch$|^<Option<.*> as Try>::branch$")
def _try_branch(ctx, a, ty, c):
    v, name = enum_variant(ctx, ctx.as_agg(a[0]))
    if name in ("Ok", "Some"):
        return Agg(ty, {0: payload(ctx, v)}, "Continue")
    if name == "Err":
        return Agg(ty, {0: err("std::result::Result", payload(ctx, v))}, "Break")
    return Agg(ty, {0: none("std::option::Option")}, "Break")


@summary(r"^<Result<.*> as FromResidual<.*>>::from_residual$")
def _from_residual(ctx, a, ty, c):
    v, name = enum_variant(ctx, ctx.as_agg(a[0]))
    e = payload(ctx, v)
    # `?` converts the error with From; identical types in all targets, or crate-local From
    m = re.match(r"^<Result<(.*)> as FromResidual<Result<Infallible, (.*)>>>::from_residual$", c, re.S)
    if m:
        outer = [x for x in __import__("mirsmt.mir", fromlist=["x"]).split_top(m.group(1))]
        if len(outer) == 2 and outer[1].strip() != m.group(2).strip():
            e = ctx.call("<%s as From<%s>>::from" % (outer[1].strip(), m.group(2).strip()), [e], outer[1].strip())
    return err(ty, e)


@summary(r"^<Option<.*> as FromResidual<.*>>::from_residual$")
def _from_residual_opt(ctx, a, ty, c):
    return none(ty)


@summary(r"^Option::<.*>::(expect|unwrap)$|^Result::<.*>::(expect|unwrap)$")
def _expect(ctx, a, ty, c):
    v, name = enum_variant(ctx, ctx.as_agg(a[0]))
    if name in ("Some", "Ok"):
        return payload(ctx, v)
    raise PathEnd("panic", "%s on %s" % (c.rsplit("::", 1)[1], name))


@summary(r"^Option::<.*>::unwrap_or$|^Result::<.*>::unwrap_or$")
def _unwrap_or(ctx, a, ty, c):
    v, name = enum_variant(ctx, ctx.as_agg(a[0]))
    return payload(ctx, v) if name in ("Some", "Ok") else a[1]


@summary(r"^Option::<.*>::unwrap_or_else::<.*>$|^Result::<.*>::unwrap_or_else::<.*>$")
def _unwrap_or_else(ctx, a, ty, c):
    v, name = enum_variant(ctx, ctx.as_agg(a[0]))
    if name in ("Some", "Ok"):
        return payload(ctx, v)
    return call_closure(ctx, a[1], [payload(ctx, v)] if name == "Err" else [])


@summary(r"^Option::<.*>::ok_or::<.*>$")
def _ok_or(ctx, a, ty, c):
    v, name = enum_variant(ctx, ctx.as_agg(a[0]))
    return ok(ty, payload(ctx, v)) if name == "Some" else err(ty, a[1])


@summary(r"^Option::<.*>::(is_some|is_none)$|^Result::<.*>::(is_ok|is_err)$")
def _is_some(ctx, a, ty, c):
    r = a[0]
    cell, path = None, None
    while isinstance(r, Ref):
        cell, path = r.cell, r.path
        r = ctx.read(cell, path)
    if isinstance(r, Lazy):
        r = ctx.as_agg(r)
        if cell is not None:
            ctx.write(cell, path, r)
    v, name = enum_variant(ctx, r)
    which = c.rsplit("::", 1)[1]
    return Bool({"is_some": name == "Some", "is_none": name == "None", "is_ok": name == "Ok", "is_err": name == "Err"}[which])


@summary(r"^Result::<.*>::map_err::<.*>$")
def _map_err(ctx, a, ty, c):
    v, name = enum_variant(ctx, ctx.as_agg(a[0]))
    if name == "Ok":
        return ok(ty, payload(ctx, v))
    return err(ty, call_closure(ctx, a[1], [payload(ctx, v)]))


@summary(r"^Result::<.*>::map::<.*>$|^Option::<.*>::map::<.*>$")
def _map(ctx, a, ty, c):
    v, name = enum_variant(ctx, ctx.as_agg(a[0]))
    if name in ("Ok", "Some"):
        r = call_closure(ctx, a[1], [payload(ctx, v)])
        return Agg(ty, {0: r}, name)
    if name == "Err":
        return err(ty, payload(ctx, v))
    return none(ty)


@summary(r"^Option::<.*>::(cloned|copied)$")
def _cloned(ctx, a, ty, c):
    v, name = enum_variant(ctx, ctx.as_agg(a[0]))
    if name == "Some":
        return some(ty, load(ctx, payload(ctx, v)))
    return none(ty)


@summary(r"^Option::<.*>::as_ref$|^Option::<.*>::as_mut$")
def _as_ref(ctx, a, ty, c):
    cell, p = deref(ctx, a[0])
    v = ctx.read(cell, p)
    v, name = enum_variant(ctx, ctx.as_agg(v))
    ctx.write(cell, p, v)
    if name == "Some":
        payload(ctx, v)
        return some(ty, Ref(cell, p + (("d", "Some"), ("f", 0, "?")), c.endswith("as_mut")))
    return none(ty)


@summary(r"^Option::<.*>::take$")
def _take(ctx, a, ty, c):
    cell, p = deref(ctx, a[0])
    v = ctx.read(cell, p)
    ctx.write(cell, p, none(ty))
    return v


@summary(r"^Option::<.*>::replace$")
def _replace(ctx, a, ty, c):
    cell, p = deref(ctx, a[0])
    v = ctx.read(cell, p)
    ctx.write(cell, p, some(ty, a[1]))
    return v


# ---- conversions / clone / misc -----------------------------------------------------------------
@summary(r"^<.* as Into<.*>>::into$")
def _into(ctx, a, ty, c):
    m = re.match(r"^<(.*) as Into<(.*)>>::into$", c, re.S)
    src_t, dst_t = m.group(1).strip(), m.group(2).strip()
    if src_t == dst_t:
        return a[0]
    return ctx.call("<%s as From<%s>>::from" % (dst_t, src_t), a, dst_t)


@summary(r"^<.* as From<.*>>::from$")
def _from_id(ctx, a, ty, c):
    m = re.match(r"^<(.*) as From<(.*)>>::from$", c, re.S)
    if m and m.group(1).strip() == m.group(2).strip():
        return a[0]
    return NotImplemented


@summary(r"^<(u\d+|usize|bool|i\d+) as Clone>::clone$")
def _clone_scalar(ctx, a, ty, c):
    return load(ctx, a[0])


@summary(r"^mem::(swap|replace|take)")
def _mem(ctx, a, ty, c):
    if "::replace" in c:
        old = load(ctx, a[0])
        store(ctx, a[0], a[1])
        return old
    if "::swap" in c:
        x, y = load(ctx, a[0]), load(ctx, a[1])
        store(ctx, a[0], y)
        store(ctx, a[1], x)
        return UNIT
    raise Unsupported(c)


@summary(r"^Rc::<.*>::new$|^Box::<.*>::new$|^Box::<.*>::new$|^Arc::<.*>::new$")
def _rc_new(ctx, a, ty, c):
    b = Agg(ty if ty != "?" else "Rc", {})
    b.attrs["inner"] = Cell(a[0], "rc")
    return b


@summary(r"^<Rc<.*> as Clone>::clone$|^<Arc<.*> as Clone>::clone$")
def _rc_clone(ctx, a, ty, c):
    return load(ctx, a[0])


@summary(r"^<Rc<.*> as AsRef<.*>>::as_ref$|^<Rc<.*> as Deref>::deref$|^<Box<.*> as Deref>::deref$|^<Arc<.*> as Deref>::deref$")
def _rc_deref(ctx, a, ty, c):
    v = load(ctx, a[0])
    if isinstance(v, Agg) and "inner" in v.attrs:
        return Ref(v.attrs["inner"], ())
    if isinstance(v, Lazy):
        cell = Cell(Lazy(deref_type(v.ty), v.name + ".*"), v.name + ".*")
        return Ref(cell, ())
    if isinstance(v, Obj):
        return Ref(Cell(v, "rc-obj"), ())
    raise Unsupported("Rc deref of %r" % (v,))


@summary(r"^panic_fmt$|^panic$|^panic_display|^core::panicking::|^std::rt::begin_panic|^core::result::unwrap_failed|^core::option::expect_failed|^std::rt::panic_fmt|^core::panicking::panic_fmt")
def _panic(ctx, a, ty, c):
    raise PathEnd("panic", c)


@summary(r"^core::fmt::rt::<impl Arguments<'_>>::|^Arguments::<'_>::|^core::fmt::rt::Argument::<'_>::|^std::fmt::format|^format")
def _fmt(ctx, a, ty, c):
    return Obj("fmt", ty)


@summary(r"^<.* as Clone>::clone$", first=True)
def _clone_lazy(ctx, a, ty, c):
    """Cloning a never-inspected symbolic value yields an equal, independent value."""
    r = a[0]
    if isinstance(r, Ref):
        v = r.cell.v if not r.path else None
        if not r.path and isinstance(v, Lazy):
            return Lazy(v.ty, v.name)
        if r.path:
            try:
                v = ctx.read(r.cell, r.path)
            except Unsupported:
                return NotImplemented
            if isinstance(v, Lazy):
                return Lazy(v.ty, v.name)
    return NotImplemented


@summary(r"^<&?(u\d+|usize) as (Add|Sub|Mul)<&?(u\d+|usize)>>::(add|sub|mul)$")
def _arith_ref(ctx, a, ty, c):
    """`&x - y` etc. on unsigned integers: std's impl is the checked operator (panics on overflow, dev profile)."""
    x, y = load(ctx, a[0]), load(ctx, a[1])
    x, y = ctx.force(x), ctx.force(y)
    op = c.rsplit("::", 1)[1]
    name = {"add": "AddWithOverflow", "sub": "SubWithOverflow", "mul": "MulWithOverflow"}[op]
    r = ctx.binop(name, x, y)
    ovf = r.fields[1].e
    if ctx.branch([z3.Not(ovf), ovf]) == 1:
        raise PathEnd("panic", "attempt to %s with overflow (%s)" % (op, c))
    return r.fields[0]


@summary(r"^core::num::<impl (u\d+|usize)>::checked_(add|sub|mul)$")
def _checked(ctx, a, ty, c):
    x, y = ctx.force(a[0]), ctx.force(a[1])
    op = c.rsplit("_", 1)[1]
    name = {"add": "AddWithOverflow", "sub": "SubWithOverflow", "mul": "MulWithOverflow"}[op]
    r = ctx.binop(name, x, y)
    ovf = r.fields[1].e
    if ctx.branch([z3.Not(ovf), ovf]) == 0:
        return some(ty, r.fields[0])
    return none(ty)


@summary(r"^Option::<.*>::filter::<.*>$")
def _opt_filter(ctx, a, ty, c):
    v, name = enum_variant(ctx, ctx.as_agg(a[0]))
    if name == "None":
        return none(ty)
    x = payload(ctx, v)
    keep = ctx.force(call_closure(ctx, a[1], [Ref(Cell(x, "filter-arg"), ())]))
    if ctx.branch([keep.e, z3.Not(keep.e)]) == 0:
        return some(ty, x)
    return none(ty)


@summary(r"^<(u\d+|usize) as Ord>::(min|max)$|^Ord::(min|max)$|^std::cmp::(min|max)::<(u\d+|usize)>$")
def _minmax(ctx, a, ty, c):
    x, y = ctx.force(a[0]), ctx.force(a[1])
    if c.endswith("min") or "::min::" in c:
        return Int(z3.If(z3.ULE(x.e, y.e), x.e, y.e), x.bits)
    return Int(z3.If(z3.UGE(x.e, y.e), x.e, y.e), x.bits)


@summary(r"^U256::as_(u8|u16|u32|u64|u128|usize)$")
def _u256_as(ctx, a, ty, c):
    t = c.rsplit("_", 1)[1]
    b = INT_TYPES[t][0]
    return Int(z3.Extract(b - 1, 0, ctx.force(a[0]).e), b)


@summary(r"^<(u8|u16|u32|u64|u128|usize) as TryFrom<U256>>::try_from$|^<U256 as TryInto<(u8|u16|u32|u64|u128|usize)>>::try_into$")
def _u256_try(ctx, a, ty, c):
    m = re.search(r"(u8|u16|u32|u64|u128|usize)", c)
    b = INT_TYPES[m.group(1)][0]
    x = ctx.force(a[0])
    fits = z3.ULE(x.e, z3.BitVecVal((1 << b) - 1, 256))
    if ctx.branch([fits, z3.Not(fits)]) == 0:
        return ok(ty, Int(z3.Extract(b - 1, 0, x.e), b))
    return err(ty, Obj("TryFromIntError"))


@summary(r"^<U256 as From<(u8|u16|u32|u64|u128|usize|bool|impl Into<U256>|T)>>::from$|^U256::new$|^U256::from_words$")
def _u256_from(ctx, a, ty, c):
    if c.endswith("from_words"):
        hi, lo = ctx.force(a[0]), ctx.force(a[1])
        return Int(z3.Concat(hi.e, lo.e), 256)
    x = ctx.force(a[0])
    if isinstance(x, Bool):
        return Int(z3.If(x.e, z3.BitVecVal(1, 256), z3.BitVecVal(0, 256)), 256)
    if not isinstance(x, Int):
        raise Unsupported("U256::from(%r)" % (x,))
    if x.bits == 256:
        return x
    return Int(z3.ZeroExt(256 - x.bits, x.e), 256)


@summary(r"^<U256 as Partial(Ord|Eq)(<U256>)?>::(lt|le|gt|ge|eq|ne)$")
def _u256_cmp(ctx, a, ty, c):
    x, y = ctx.force(load(ctx, a[0])), ctx.force(load(ctx, a[1]))
    op = c.rsplit("::", 1)[1]
    f = {"lt": z3.ULT, "le": z3.ULE, "gt": z3.UGT, "ge": z3.UGE, "eq": lambda p, q: p == q, "ne": lambda p, q: p != q}[op]
    return Bool(f(x.e, y.e))
