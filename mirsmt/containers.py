"""Summaries for std containers (HashMap, VecDeque, Vec, slices, iterators)."""
import re

import z3

from .interp import (Agg, Bool, Cell, FnItem, Int, Lazy, Obj, PathEnd, Ref, UNIT, Unsupported, INT_TYPES,
                     deref_type, type_args, type_head)
from .summaries import (summary, deref, load, store, obj_at, some, none, ok, err, call_closure, enum_variant, payload)


def bits_of(ty):
    ty = ty.strip()
    if ty in INT_TYPES:
        return INT_TYPES[ty][0]
    raise Unsupported("non-scalar container element type %s" % ty)


# ---- HashMap<scalar, scalar> ----------------------------------------------------------------------
class MapSlot(Cell):
    """A cell whose value lives in the map's z3 array (write-through)."""
    __slots__ = ("map", "key")

    def __init__(self, m, key):
        self.map, self.key = m, key
        self.label = "slot"

    @property
    def v(self):
        return Int(z3.Select(self.map.vals, self.key), self.map.vbits)

    @v.setter
    def v(self, nv):
        self.map.vals = z3.Store(self.map.vals, self.key, nv.e)


def mk_hashmap(lz):
    a = type_args(lz.ty)
    kb, vb = bits_of(a[0]), bits_of(a[1])
    return Obj("hashmap", lz.ty, name=lz.name, kbits=kb, vbits=vb,
               vals=z3.Array(lz.name + ".vals", z3.BitVecSort(kb), z3.BitVecSort(vb)),
               pres=z3.Array(lz.name + ".pres", z3.BitVecSort(kb), z3.BoolSort()))


@summary(r"^HashMap::<.*>::entry$")
def _hm_entry(ctx, a, ty, c):
    m = obj_at(ctx, a[0], mk_hashmap)
    return Obj("entry", ty, map=m, key=ctx.force(a[1]).e)


@summary(r"^Entry::<.*>::and_modify::<.*>$")
def _hm_and_modify(ctx, a, ty, c):
    e = a[0]
    present = z3.Select(e.map.pres, e.key)
    if ctx.branch([present, z3.Not(present)]) == 0:
        call_closure(ctx, a[1], [Ref(MapSlot(e.map, e.key), (), True)])
    return e


@summary(r"^Entry::<.*>::or_insert$")
def _hm_or_insert(ctx, a, ty, c):
    e = a[0]
    present = z3.Select(e.map.pres, e.key)
    if ctx.branch([present, z3.Not(present)]) == 1:
        e.map.vals = z3.Store(e.map.vals, e.key, ctx.force(a[1]).e)
        e.map.pres = z3.Store(e.map.pres, e.key, z3.BoolVal(True))
    return Ref(MapSlot(e.map, e.key), (), True)


@summary(r"^HashMap::<.*>::get::<.*>$")
def _hm_get(ctx, a, ty, c):
    m = obj_at(ctx, a[0], mk_hashmap)
    k = ctx.force(load(ctx, a[1])).e
    present = z3.Select(m.pres, k)
    if ctx.branch([present, z3.Not(present)]) == 0:
        return some(ty, Ref(MapSlot(m, k), ()))
    return none(ty)


@summary(r"^<HashMap<.*> as Default>::default$|^HashMap::<.*>::new$")
def _hm_new(ctx, a, ty, c):
    targs = type_args(ty)
    try:
        kb, vb = bits_of(targs[0]), bits_of(targs[1])
    except (Unsupported, IndexError):
        return Obj("hashmap-opaque", ty, name="new")
    return Obj("hashmap", ty, name="new", kbits=kb, vbits=vb,
               vals=z3.K(z3.BitVecSort(kb), z3.BitVecVal(0, vb)), pres=z3.K(z3.BitVecSort(kb), z3.BoolVal(False)))


@summary(r"^<HashMap<.*> as Clone>::clone$")
def _hm_clone(ctx, a, ty, c):
    m = obj_at(ctx, a[0], mk_hashmap)
    return Obj("hashmap", m.ty, name=m.name + "'", kbits=m.kbits, vbits=m.vbits, vals=m.vals, pres=m.pres)


# ---- VecDeque<T> (lazy front) ------------------------------------------------------------------------
def mk_deque(lz):
    return Obj("deque", lz.ty, name=lz.name, elems=[], gen=0, pushed=[], elem_ty=(type_args(lz.ty) or ["?"])[0])


def _dq_empty(d):
    return z3.Bool("%s.empty@%d" % (d.name, d.gen))


def _dq_front(ctx, d):
    """materialise the front element if the deque is non-empty on this path; returns cell or None"""
    if d.elems:
        return d.elems[0]
    e = _dq_empty(d)
    if ctx.branch([z3.Not(e), e]) == 0:
        d.elems.append(Cell(Lazy(d.elem_ty, "%s[%d]" % (d.name, d.gen)), "%s[%d]" % (d.name, d.gen)))
        return d.elems[0]
    return None


@summary(r"^VecDeque::<.*>::is_empty$")
def _dq_is_empty(ctx, a, ty, c):
    d = obj_at(ctx, a[0], mk_deque)
    if d.elems:
        return Bool(False)
    if d.pushed:
        return Bool(False)
    return Bool(_dq_empty(d))


@summary(r"^VecDeque::<.*>::(front|front_mut)$")
def _dq_front_s(ctx, a, ty, c):
    d = obj_at(ctx, a[0], mk_deque)
    cell = _dq_front(ctx, d)
    if cell is None:
        if d.pushed:
            return some(ty, Ref(d.pushed[0], (), True))
        return none(ty)
    return some(ty, Ref(cell, (), c.endswith("_mut")))


@summary(r"^VecDeque::<.*>::pop_front$")
def _dq_pop(ctx, a, ty, c):
    d = obj_at(ctx, a[0], mk_deque)
    cell = _dq_front(ctx, d)
    if cell is None:
        if d.pushed:
            return some(ty, d.pushed.pop(0).v)
        return none(ty)
    d.elems.pop(0)
    d.gen += 1
    d.popped = getattr(d, "popped", 0) + 1
    return some(ty, cell.v)


@summary(r"^VecDeque::<.*>::push_back$")
def _dq_push(ctx, a, ty, c):
    d = obj_at(ctx, a[0], mk_deque)
    d.pushed.append(Cell(a[1], "%s.pushed" % d.name))
    return UNIT


# ---- Vec<T> (unknown prefix + pushes) -------------------------------------------------------------------
def mk_vec(lz):
    et = (type_args(lz.ty) or ["?"])[0]
    if et.strip() == "u8":
        return Obj("bytes", lz.ty, name=lz.name, arr=z3.Array(lz.name + ".arr", z3.BitVecSort(64), z3.BitVecSort(8)),
                   len=z3.BitVec(lz.name + ".len", 64))
    return Obj("vec", lz.ty, name=lz.name, base_len=z3.BitVec(lz.name + ".len", 64), pushed=[], elem_ty=et)


def vec_len(v):
    if v.kind == "bytes":
        return v.len
    return v.base_len + z3.BitVecVal(len(v.pushed), 64)


@summary(r"^Vec::<.*>::push$")
def _vec_push(ctx, a, ty, c):
    v = obj_at(ctx, a[0], mk_vec)
    if v.kind == "bytes":
        v.arr = z3.Store(v.arr, v.len, ctx.force(a[1]).e)
        v.len = v.len + 1
    else:
        v.pushed.append(a[1])
    return UNIT


@summary(r"^Vec::<.*>::len$|^core::slice::<impl \[.*\]>::len$")
def _vec_len(ctx, a, ty, c):
    v = obj_at(ctx, a[0], mk_vec)
    return Int(vec_len(v), 64)


@summary(r"^@len$")
def _len_rvalue(ctx, a, ty, c):
    v = a[0]
    if isinstance(v, (Ref, Lazy)):
        v = obj_at(ctx, v, mk_vec)
    if isinstance(v, Obj) and v.kind in ("bytes", "vec"):
        return Int(vec_len(v), 64)
    raise Unsupported("Len of %r" % (v,))


@summary(r"^Vec::<.*>::is_empty$|^core::slice::<impl \[.*\]>::is_empty$")
def _vec_is_empty(ctx, a, ty, c):
    v = obj_at(ctx, a[0], mk_vec)
    return Bool(vec_len(v) == 0)


@summary(r"^Vec::<.*>::(new|with_capacity)$")
def _vec_new(ctx, a, ty, c):
    et = (type_args(ty) or ["?"])[0]
    if et.strip() == "u8":
        return Obj("bytes", ty, name="new", arr=z3.K(z3.BitVecSort(64), z3.BitVecVal(0, 8)), len=z3.BitVecVal(0, 64))
    return Obj("vec", ty, name="new", base_len=z3.BitVecVal(0, 64), pushed=[], elem_ty=et)


@summary(r"^Vec::<.*>::clear$")
def _vec_clear(ctx, a, ty, c):
    v = obj_at(ctx, a[0], mk_vec)
    if v.kind == "bytes":
        v.len = z3.BitVecVal(0, 64)
    else:
        v.base_len, v.pushed = z3.BitVecVal(0, 64), []
    return UNIT


@summary(r"^<Vec<.*> as Clone>::clone$")
def _vec_clone(ctx, a, ty, c):
    v = obj_at(ctx, a[0], mk_vec)
    if v.kind == "bytes":
        return Obj("bytes", v.ty, name=v.name + "'", arr=v.arr, len=v.len)
    return Obj("vec", v.ty, name=v.name + "'", base_len=v.base_len, pushed=list(v.pushed), elem_ty=v.elem_ty)


@summary(r"^<Vec<.*> as Deref>::deref$|^Vec::<.*>::as_slice$|^<Vec<.*> as AsRef<.*>>::as_ref$")
def _vec_deref(ctx, a, ty, c):
    return a[0]


# ---- slices / iterators over bytes -------------------------------------------------------------------------
@summary(r"^core::slice::<impl \[u8\]>::iter$|^core::slice::<impl \[.*\]>::iter$")
def _slice_iter(ctx, a, ty, c):
    v = obj_at(ctx, a[0], mk_vec)
    return Obj("sliceiter", ty, src=v, pos=z3.BitVecVal(0, 64))


@summary(r"^<Iter<'_, .*> as Iterator>::enumerate$")
def _enumerate(ctx, a, ty, c):
    return Obj("enumerate", ty, it=a[0], count=z3.BitVecVal(0, 64))


@summary(r"^<.* as IntoIterator>::into_iter$")
def _into_iter(ctx, a, ty, c):
    return a[0]


def _iter_next(ctx, it, ty):
    src = it.src
    if src.kind != "bytes":
        raise Unsupported("iteration over non-byte vec")
    has = z3.ULT(it.pos, src.len)
    if ctx.branch([has, z3.Not(has)]) == 0:
        b = Int(z3.Select(src.arr, it.pos), 8)
        it.pos = it.pos + 1
        return Ref(Cell(b, "elem"), ())
    return None


@summary(r"^<Enumerate<Iter<'_, .*>> as Iterator>::next$")
def _enum_next(ctx, a, ty, c):
    e = load(ctx, a[0])
    r = _iter_next(ctx, e.it, ty)
    if r is None:
        return none(ty)
    idx = Int(e.count, 64)
    e.count = e.count + 1
    return some(ty, Agg("(tuple)", {0: idx, 1: r}))


@summary(r"^<Iter<'_, .*> as Iterator>::next$")
def _slice_next(ctx, a, ty, c):
    it = load(ctx, a[0])
    r = _iter_next(ctx, it, ty)
    return none(ty) if r is None else some(ty, r)


@summary(r"^<Iter<'_, .*> as Iterator>::for_each::<.*>$")
def _for_each(ctx, a, ty, c):
    it = a[0]
    n = 0
    while True:
        r = _iter_next(ctx, it, ty)
        if r is None:
            return UNIT
        call_closure(ctx, a[1], [r])
        n += 1
        if n > 40:
            raise PathEnd("loop-bound", "for_each")


@summary(r"^<Range<(u\d+|usize)> as Iterator>::next$|^std::iter::range::<impl Iterator for Range<(u\d+|usize)>>::next$")
def _range_next(ctx, a, ty, c):
    cell, p = deref(ctx, a[0])
    r = ctx.read(cell, p)
    lo, hi = ctx.force(r.fields[0]), ctx.force(r.fields[1])
    has = z3.ULT(lo.e, hi.e)
    if ctx.branch([has, z3.Not(has)]) == 0:
        r.fields[0] = Int(lo.e + 1, lo.bits)
        return some(ty, lo)
    return none(ty)


# ---- instruction vectors: Vec<Rc<dyn Opcode>> as (length, type-tag per offset) ---------------------------
OP_TAGS = {}


def op_tag(name):
    name = name.strip().split("::")[-1]
    if name not in OP_TAGS:
        OP_TAGS[name] = len(OP_TAGS) + 1
    return OP_TAGS[name]


def mk_opsvec(lz):
    return Obj("opsvec", lz.ty, name=lz.name, len=z3.BitVec(lz.name + ".len", 64),
               tags=z3.Array(lz.name + ".tags", z3.BitVecSort(64), z3.BitVecSort(16)), pushed=[])


_old_mk_vec = mk_vec


def mk_vec(lz):  # noqa: F811
    et = (type_args(lz.ty) or ["?"])[0]
    if "dyn" in et and "Opcode" in et:
        return mk_opsvec(lz)
    return _old_mk_vec(lz)


def _unwrap_rc(ctx, r):
    """reference to Rc<Vec<..>> / Vec<..> / [..] -> the vector object"""
    c, p = deref(ctx, r)
    v = ctx.read(c, p)
    if isinstance(v, Lazy):
        h = type_head(v.ty)
        if h in ("Rc", "Arc", "Box"):
            inner = Lazy(type_args(v.ty)[0], v.name + ".*")
            o = mk_vec(inner)
            b = Agg(v.ty, {})
            b.attrs["inner"] = Cell(o, v.name + ".*")
            ctx.write(c, p, b)
            return o
        o = mk_vec(v)
        ctx.write(c, p, o)
        return o
    if isinstance(v, Agg) and "inner" in v.attrs:
        iv = v.attrs["inner"].v
        if isinstance(iv, Lazy):
            iv = mk_vec(iv)
            v.attrs["inner"].v = iv
        return iv
    return v


@summary(r"^core::slice::<impl \[.*\]>::get::<usize>$", first=True)
def _slice_get(ctx, a, ty, c):
    v = _unwrap_rc(ctx, a[0])
    i = ctx.force(a[1]).e
    if v.kind == "opsvec":
        inb = z3.ULT(i, v.len)
        if ctx.branch([inb, z3.Not(inb)]) == 0:
            op = Obj("op", "Rc<dyn Opcode>", tag=z3.Select(v.tags, i), at=i)
            return some(ty, Ref(Cell(op, "op"), ()))
        return none(ty)
    if v.kind == "bytes":
        inb = z3.ULT(i, v.len)
        if ctx.branch([inb, z3.Not(inb)]) == 0:
            return some(ty, Ref(Cell(Int(z3.Select(v.arr, i), 8), "b"), ()))
        return none(ty)
    raise Unsupported("slice get on %r" % (v,))


@summary(r"^<Vec<.*> as Index<usize>>::index$", first=True)
def _vec_index(ctx, a, ty, c):
    v = _unwrap_rc(ctx, a[0])
    i = ctx.force(a[1]).e
    if v.kind == "opsvec":
        inb = z3.ULT(i, v.len)
        if ctx.branch([inb, z3.Not(inb)]) == 0:
            return Ref(Cell(Obj("op", "Rc<dyn Opcode>", tag=z3.Select(v.tags, i), at=i), "op"), ())
        raise PathEnd("panic", "index out of bounds")
    if v.kind == "vec" and getattr(ctx, "vec_index_panics", False):
        # opt-in (C01): a vector of unknown length indexed at i panics exactly when i >= len
        n = vec_len(v)
        inb = z3.ULT(i, n)
        if ctx.branch([inb, z3.Not(inb)]) == 0:
            return Ref(Cell(ctx.fresh(v.elem_ty, "%s[i]" % v.name), "elem"), ())
        raise PathEnd("panic", "index out of bounds: Vec of symbolic length indexed by Index::index")
    raise Unsupported("index on %r" % (v,))


@summary(r"^(std::ops::|core::ops::)?Range::<(u\d+|usize)>::is_empty$")
def _range_is_empty(ctx, a, ty, c):
    r = load(ctx, a[0])
    lo, hi = ctx.force(r.fields[0]), ctx.force(r.fields[1])
    return Bool(z3.UGE(lo.e, hi.e))


@summary(r"^<Vec<.*> as Index<(std::ops::|core::ops::)?Range<usize>>>::index$", first=True)
def _vec_index_range(ctx, a, ty, c):
    v = _unwrap_rc(ctx, a[0])
    r = a[1]
    lo, hi = ctx.force(r.fields[0]).e, ctx.force(r.fields[1]).e
    if v.kind != "opsvec":
        raise Unsupported("range index on %r" % (v,))
    ok_ = z3.And(z3.ULE(lo, hi), z3.ULE(hi, v.len))
    if ctx.branch([ok_, z3.Not(ok_)]) == 1:
        raise PathEnd("panic", "range index out of bounds")
    return Ref(Cell(Obj("opslice", "[Rc<dyn Opcode>]", base=v, lo=lo, hi=hi), "slice"), ())


@summary(r"^<Vec<.*> as Index<(std::ops::|core::ops::)?RangeFrom<usize>>>::index$|^core::slice::index::<impl Index<(std::ops::|core::ops::)?RangeFrom<usize>> for \[.*\]>::index$", first=True)
def _vec_index_from(ctx, a, ty, c):
    v = _unwrap_rc(ctx, a[0])
    if not (isinstance(v, Obj) and v.kind == "vec" and getattr(ctx, "vec_index_panics", False)):
        return NotImplemented
    lo = ctx.force(a[1].fields[0]).e
    n = vec_len(v)
    ok_ = z3.ULE(lo, n)
    if ctx.branch([ok_, z3.Not(ok_)]) == 1:
        raise PathEnd("panic", "index out of bounds: range start beyond the length of a Vec of symbolic length")
    return Ref(Cell(Obj("vec", "[%s]" % v.elem_ty, name=v.name + "[lo..]", base_len=n - lo, pushed=[], elem_ty=v.elem_ty), "slice"), ())


@summary(r"^core::slice::<impl \[.*\]>::first$", first=True)
def _slice_first(ctx, a, ty, c):
    v = load(ctx, a[0])
    if isinstance(v, Obj) and v.kind == "opslice":
        nonempty = z3.ULT(v.lo, v.hi)
        if ctx.branch([nonempty, z3.Not(nonempty)]) == 0:
            return some(ty, Ref(Cell(Obj("op", "Rc<dyn Opcode>", tag=z3.Select(v.base.tags, v.lo), at=v.lo), "op"), ()))
        return none(ty)
    return NotImplemented


@summary(r"^<Rc<Vec<.*>> as Deref>::deref$", first=True)
def _rcvec_deref(ctx, a, ty, c):
    v = _unwrap_rc(ctx, a[0])
    return Ref(Cell(v, "vec"), ())


@summary(r"^Vec::<Rc<dyn .*Opcode>>::len$|^Vec::<Rc<dyn Opcode>>::len$", first=True)
def _opsvec_len(ctx, a, ty, c):
    v = _unwrap_rc(ctx, a[0])
    return Int(v.len, 64)


def _op_of(ctx, r):
    v = r
    for _ in range(4):
        if isinstance(v, Obj) and v.kind == "op":
            return v
        v = load(ctx, v)
        if isinstance(v, Agg) and "inner" in v.attrs:
            v = v.attrs["inner"].v
    raise Unsupported("not an opcode object: %r" % (r,))


@summary(r"^<Rc<dyn .*Opcode> as AsRef<dyn .*Opcode>>::as_ref$|^<dyn .*Opcode as Downcast>::as_any$|^<Rc<dyn Opcode> as AsRef<dyn Opcode>>::as_ref$|^<dyn Opcode as Downcast>::as_any$", first=True)
def _op_as_any(ctx, a, ty, c):
    return Ref(Cell(_op_of(ctx, a[0]), "op"), ())


@summary(r"^<\(?dyn Any( \+ 'static\))?>::downcast_ref::<.*>$", first=True)
def _downcast_ref(ctx, a, ty, c):
    op = _op_of(ctx, a[0])
    t = re.search(r"downcast_ref::<(.*)>$", c).group(1)
    tag = op.tag if not isinstance(op.tag, int) else z3.BitVecVal(op.tag, 16)
    is_t = tag == z3.BitVecVal(op_tag(t), 16)
    if ctx.branch([is_t, z3.Not(is_t)]) == 0:
        return some(ty, Ref(Cell(op, "op"), ()))
    return none(ty)


@summary(r"^<\(?dyn Any( \+ 'static\))?>::is::<.*>$", first=True)
def _any_is(ctx, a, ty, c):
    op = _op_of(ctx, a[0])
    t = re.search(r"is::<(.*)>$", c).group(1)
    tag = op.tag if not isinstance(op.tag, int) else z3.BitVecVal(op.tag, 16)
    return Bool(tag == z3.BitVecVal(op_tag(t), 16))


@summary(r"^<Vec<.*> as DerefMut>::deref_mut$")
def _vec_deref_mut(ctx, a, ty, c):
    return a[0]


@summary(r"^(core::slice|alloc::slice|std::slice)::<impl \[.*\]>::(sort_by_key|sort_by|sort|sort_unstable_by_key)(::<.*>)?$")
def _sort(ctx, a, ty, c):
    """Order of an abstract vector is not modelled (multiset view): sorting is the identity."""
    return UNIT


@summary(r"^<Vec<.*> as Extend<.*>>::extend::<.*>$")
def _vec_extend(ctx, a, ty, c):
    v = obj_at(ctx, a[0], mk_vec)
    src = a[1]
    if isinstance(src, Obj) and src.kind == "vec" and v.kind == "vec" and z3.is_bv_value(z3.simplify(src.base_len)) \
            and z3.simplify(src.base_len).as_long() == 0:
        v.pushed.extend(src.pushed)
        return UNIT
    if isinstance(src, Obj) and src.kind == "it" and v.kind == "vec":
        from .iterators import pull
        while True:
            x = pull(ctx, src)
            if x is None:
                return UNIT
            v.pushed.append(x)
    if isinstance(src, (Ref, Lazy)) and v.kind == "vec":
        tgt = load(ctx, src)
        if isinstance(tgt, Lazy) and tgt.ty.strip().startswith(("std::vec::Vec", "Vec")):
            et = (type_args(tgt.ty) or ["?"])[0]
            tgt = Obj("seq", tgt.ty, name=tgt.name, cells=[Cell(Lazy(et, "%s[%d]" % (tgt.name, i)), "%s[%d]" % (tgt.name, i)) for i in range(2)])
            store(ctx, src, tgt)
        if isinstance(tgt, Obj) and tgt.kind == "seq":
            v.pushed.extend(Ref(c_, ()) for c_ in tgt.cells)
            return UNIT
    raise Unsupported("Vec::extend with %r" % (src,))
