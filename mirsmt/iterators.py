"""Pull-based summaries of iterator adaptors over concrete-length sequences of cells, and `Vec<Option<V>>`
as a fixed-length vector of symbolic options ("optvec")."""
import re

import z3

from .interp import Agg, Bool, Cell, Int, Lazy, Obj, PathEnd, Ref, UNIT, Unsupported, type_args
from .summaries import summary, deref, load, some, none, call_closure, enum_variant, payload


def optvec(name, elem_ty, n):
    return Obj("optvec", "Vec<Option<%s>>" % elem_ty, name=name, elem_ty=elem_ty,
               cells=[Cell(Lazy("std::option::Option<%s>" % elem_ty, "%s[%d]" % (name, i)), "%s[%d]" % (name, i)) for i in range(n)])


def _optvec_of(ctx, r):
    v = r
    for _ in range(4):
        if isinstance(v, Obj) and v.kind == "optvec":
            return v
        if isinstance(v, (Ref, Lazy)):
            v = load(ctx, v)
        else:
            break
    return None


def _index_cell(ctx, ov, idx, what):
    """fork over which cell a (possibly symbolic) index denotes; out of range -> None"""
    i = ctx.force(idx).e
    n = len(ov.cells)
    conds = [i == z3.BitVecVal(k, 64) for k in range(n)] + [z3.UGE(i, z3.BitVecVal(n, 64))]
    k = ctx.branch(conds)
    return ov.cells[k] if k < n else None


@summary(r"^Vec::<.*Option<.*>>::len$", first=True)
def _ov_len(ctx, a, ty, c):
    ov = _optvec_of(ctx, a[0])
    if ov is None:
        return NotImplemented
    return Int(len(ov.cells), 64)


@summary(r"^core::slice::<impl \[.*\]>::(get|get_mut)::<usize>$", first=True)
def _ov_get(ctx, a, ty, c):
    ov = _optvec_of(ctx, a[0])
    if ov is None:
        return NotImplemented
    cell = _index_cell(ctx, ov, a[1], "get")
    return none(ty) if cell is None else some(ty, Ref(cell, (), c.endswith("get_mut::<usize>")))


@summary(r"^<Vec<.*> as (Index|IndexMut)<usize>>::(index|index_mut)$", first=True)
def _ov_index(ctx, a, ty, c):
    ov = _optvec_of(ctx, a[0])
    if ov is None:
        return NotImplemented
    cell = _index_cell(ctx, ov, a[1], "index")
    if cell is None:
        raise PathEnd("panic", "index out of bounds")
    return Ref(cell, (), True)


@summary(r"^Vec::<.*Option<.*>>::push$", first=True)
def _ov_push(ctx, a, ty, c):
    ov = _optvec_of(ctx, a[0])
    if ov is None:
        return NotImplemented
    ov.cells.append(Cell(a[1], "%s[%d]" % (ov.name, len(ov.cells))))
    return UNIT


@summary(r"^<Vec<.*Option<.*>> as (Deref|DerefMut)>::(deref|deref_mut)$", first=True)
def _ov_deref(ctx, a, ty, c):
    return a[0]


# ---- iterators ---------------------------------------------------------------------------------------------
@summary(r"^core::slice::<impl \[.*\]>::(iter|iter_mut)$", first=True)
def _ov_iter(ctx, a, ty, c):
    ov = _optvec_of(ctx, a[0])
    if ov is None:
        return NotImplemented
    return Obj("it", ty, op="slice", cells=list(ov.cells), pos=0)


def is_it(v):
    return isinstance(v, Obj) and v.kind == "it"


@summary(r"^<.* as Iterator>::(enumerate|filter|map|filter_map|cloned|copied)(::<.*>)?$", first=True)
def _adaptor(ctx, a, ty, c):
    if not is_it(a[0]):
        return NotImplemented
    op = re.search(r"as Iterator>::(\w+)", c).group(1)
    return Obj("it", ty, op=op, src=a[0], f=a[1] if len(a) > 1 else None, count=0)


@summary(r"^<.* as IntoIterator>::into_iter$", first=True)
def _into_iter_it(ctx, a, ty, c):
    if is_it(a[0]):
        return a[0]
    if isinstance(a[0], Obj) and a[0].kind == "vec" and z3.is_bv_value(z3.simplify(a[0].base_len)) \
            and z3.simplify(a[0].base_len).as_long() == 0:
        return Obj("it", ty, op="list", items=list(a[0].pushed), pos=0)
    return NotImplemented


def pull(ctx, it):
    op = it.op
    if op == "slice":
        if it.pos < len(it.cells):
            cell = it.cells[it.pos]
            it.pos += 1
            return Ref(cell, (), True)
        return None
    if op == "list":
        if it.pos < len(it.items):
            x = it.items[it.pos]
            it.pos += 1
            return x
        return None
    if op == "enumerate":
        x = pull(ctx, it.src)
        if x is None:
            return None
        i = it.count
        it.count += 1
        return Agg("(tuple)", {0: Int(i, 64), 1: x})
    if op in ("cloned", "copied"):
        x = pull(ctx, it.src)
        return None if x is None else load(ctx, x)
    if op == "map":
        x = pull(ctx, it.src)
        return None if x is None else call_closure(ctx, it.f, [x])
    if op == "filter":
        while True:
            x = pull(ctx, it.src)
            if x is None:
                return None
            keep = ctx.force(call_closure(ctx, it.f, [Ref(Cell(x, "filter-arg"), ())]))
            if ctx.branch([keep.e, z3.Not(keep.e)]) == 0:
                return x
    if op == "filter_map":
        while True:
            x = pull(ctx, it.src)
            if x is None:
                return None
            r = call_closure(ctx, it.f, [x])
            v, name = enum_variant(ctx, ctx.as_agg(r))
            if name == "Some":
                return payload(ctx, v)
    raise Unsupported("iterator adaptor " + op)


@summary(r"^<.* as Iterator>::next$", first=True)
def _it_next(ctx, a, ty, c):
    it = load(ctx, a[0]) if isinstance(a[0], Ref) else a[0]
    if not is_it(it):
        return NotImplemented
    x = pull(ctx, it)
    return none(ty) if x is None else some(ty, x)


@summary(r"^<.* as Iterator>::collect::<Vec<.*>>$", first=True)
def _it_collect(ctx, a, ty, c):
    if not is_it(a[0]):
        return NotImplemented
    items = []
    while True:
        x = pull(ctx, a[0])
        if x is None:
            break
        items.append(x)
        if len(items) > 64:
            raise PathEnd("loop-bound", "collect")
    return Obj("vec", ty, name="collected", base_len=z3.BitVecVal(0, 64), pushed=items, elem_ty="?")


@summary(r"^<.* as Iterator>::sum::<(usize|u\d+)>$", first=True)
def _it_sum(ctx, a, ty, c):
    if not is_it(a[0]):
        return NotImplemented
    acc = z3.BitVecVal(0, 64)
    n = 0
    while True:
        x = pull(ctx, a[0])
        if x is None:
            break
        acc = acc + ctx.force(x).e
        n += 1
        if n > 64:
            raise PathEnd("loop-bound", "sum")
    return Int(acc, 64)
