"""Engine B front end: dump MIR from /repo's working tree, build an Explorer, discharge obligations."""
import os
import subprocess
import time

import z3

from . import containers, mir, summaries  # noqa: F401  (containers registers its summaries)
from . import iterators  # noqa: F401
from .interp import Explorer, Lazy, Cell, Ref, Unsupported
from .srcinfo import SrcInfo


def dump_mir(repo, work, env=None):
    """cargo +nightly rustc -- -Zunpretty=mir  (dev profile, overflow checks on). Returns path."""
    os.makedirs(work, exist_ok=True)
    out = os.path.join(work, "crate.mir")
    e = dict(os.environ)
    e.update(env or {})
    e["CARGO_NET_OFFLINE"] = "true"
    e["CARGO_TARGET_DIR"] = os.path.join(work, "target-mir")
    # force rustc to run again (an up-to-date fingerprint would print nothing) without touching /repo
    import glob
    import shutil
    for d in glob.glob(os.path.join(e["CARGO_TARGET_DIR"], "debug", ".fingerprint", "storage-layout-extractor-*")):
        shutil.rmtree(d, ignore_errors=True)
    t0 = time.time()
    with open(out, "w") as f, open(os.path.join(work, "mir.err"), "w") as ef:
        rc = subprocess.call(["cargo", "+nightly", "rustc", "--offline", "--lib", "--", "-Zunpretty=mir",
                              "-C", "debug-assertions=off", "-C", "overflow-checks=on"],
                             cwd=repo, env=e, stdout=f, stderr=ef)
    if rc != 0 or os.path.getsize(out) < 1000:
        raise RuntimeError("MIR dump failed (see %s)" % os.path.join(work, "mir.err"))
    return out, time.time() - t0


class Engine:
    def __init__(self, repo, mir_path):
        self.fns = mir.parse(mir_path)
        self.src = SrcInfo(repo)
        self.summaries = summaries.S

    def explorer(self, extra=None, **kw):
        """extra: target-level summaries [(regex str, fn)] tried before the standard table."""
        import re as _re
        sm = [(_re.compile(p) if not p.startswith("@") else p, f) for p, f in (extra or [])] + list(self.summaries)
        return Explorer(self.fns, self.src, sm, **kw)

    def fn(self, suffix, file=None):
        c = [f for n, f in self.fns.items() if n.endswith(suffix) and (file is None or ("<impl at %s:" % file) in n)]
        if len(c) != 1:
            raise Unsupported("function %s: %d candidates" % (suffix, len(c)))
        return c[0]


def z3_check(assertions, timeout_ms=60000):
    s = z3.Solver()
    s.set("timeout", timeout_ms)
    for a in assertions:
        s.add(a)
    t0 = time.time()
    r = s.check()
    return str(r), (s.model() if r == z3.sat else None), time.time() - t0, s


def cvc5_check(solver, timeout_s=60):
    """Cross-check the same assertions with cvc5 (SMT-LIB2 text through the binary)."""
    txt = "(set-logic ALL)\n" + solver.to_smt2()
    try:
        p = subprocess.run(["cvc5", "--lang", "smt2", "--tlimit=%d" % (timeout_s * 1000)], input=txt, text=True,
                           stdout=subprocess.PIPE, stderr=subprocess.STDOUT, timeout=timeout_s + 10)
    except subprocess.TimeoutExpired:
        return "timeout"
    out = p.stdout.strip().splitlines()
    if any("(error" in l for l in out):
        return "error: " + " ".join(out)[:200]
    for l in out:
        if l.strip() in ("sat", "unsat", "unknown"):
            return l.strip()
    return "error: " + " ".join(out)[:200]


class View:
    """Name-based access to the final object graph of a path."""

    def __init__(self, ctx):
        self.ctx = ctx

    def get(self, v, ty, *names):
        """v: value (Agg/Lazy) or Cell; follow struct fields by name, types looked up in the source."""
        ctx = self.ctx
        if isinstance(v, Cell):
            cell, path = v, ()
        elif isinstance(v, Ref):
            cell, path = v.cell, v.path
        else:
            cell, path = Cell(v, "tmp"), ()
        cur_ty = ty
        for n in names:
            idx = ctx.src.field_index(cur_ty, n)
            if idx is None:
                raise Unsupported("field %s of %s" % (n, cur_ty))
            path = path + (("f", idx, FIELD_TYPES.get((ctx.src._norm(cur_ty).split("::")[-1], n), "?")),)
            cur_ty = FIELD_TYPES.get((ctx.src._norm(cur_ty).split("::")[-1], n), "?")
        return ctx.read(cell, path)


# declared types of the struct fields the properties talk about (checked against the source on load)
FIELD_TYPES = {
    ("VisitedOpcodes", "instructions_len"): "u32",
    ("VisitedOpcodes", "maximum_iterations_per_opcode"): "usize",
    ("VisitedOpcodes", "data"): "std::collections::HashMap<u32, usize>",
    ("JumpTargets", "instructions"): "disassembly::ExecutionThread",
    ("JumpTargets", "tracker"): "vm::data::VisitedOpcodes",
    ("ExecutionThread", "instruction_pointer"): "u32",
    ("ExecutionThread", "instructions"): "std::rc::Rc<std::vec::Vec<std::rc::Rc<dyn opcode::Opcode>>>",
    ("VMThread", "state"): "vm::state::VMState",
    ("VMThread", "thread"): "disassembly::ExecutionThread",
    ("VMThread", "gas_usage"): "usize",
    ("VMState", "visited_instructions"): "vm::data::VisitedOpcodes",
    ("VMState", "fork_point"): "u32",
    ("VM", "instructions"): "disassembly::InstructionStream",
    ("VM", "jump_targets"): "vm::data::JumpTargets",
    ("VM", "thread_queue"): "std::collections::VecDeque<vm::thread::VMThread>",
    ("VM", "stored_states"): "std::vec::Vec<vm::state::VMState>",
    ("VM", "config"): "vm::Config",
    ("VM", "current_thread_killed"): "bool",
    ("VM", "errors"): "error::container::Errors<error::container::Located<error::execution::Error>>",
    ("InstructionStream", "instructions"): "std::rc::Rc<std::vec::Vec<std::rc::Rc<dyn opcode::Opcode>>>",
    ("Config", "gas_limit"): "usize",
    ("Config", "permissive_errors"): "bool",
    ("Errors", "payloads"): "std::vec::Vec<error::container::Located<error::execution::Error>>",
}


def check_field_types(src):
    """FIELD_TYPES must name real fields (guards against the source drifting under the table)."""
    bad = []
    for (ty, f) in FIELD_TYPES:
        if src.field_index(ty, f) is None:
            bad.append("%s.%s" % (ty, f))
    return bad
