"""Bounded symbolic executor over rustc MIR (text dump) producing z3 terms.

* integers are bit-vectors of their Rust width (wrapping; the `...WithOverflow` ops yield the
  (value, overflow) pair and the following `assert` terminator becomes a reachable-panic query);
* aggregates are Python objects with lazily materialised symbolic fields (named by access path,
  so the same input has the same z3 name on every path);
* enums always have a concrete variant on a path: reading the discriminant of an unknown enum
  forks over its variants (variant order read from /repo's source);
* forking is replay-based: a path is re-executed from the start with a longer decision prefix,
  so no state copying is needed; infeasible branches are pruned with the solver;
* calls: crate-local callees are inlined from the same dump; everything else must have an entry
  in the summary table, otherwise the run is INCONCLUSIVE (Unsupported), never a silent pass.
"""
import re

import z3

from . import mir


class Unsupported(Exception):
    pass


class NeedChoice(Exception):
    def __init__(self, n):
        self.n = n


class PathEnd(Exception):
    def __init__(self, kind, msg="", data=None):
        self.kind = kind
        self.msg = msg
        self.data = data


# ---------------------------------------------------------------------------------------
# values
# ---------------------------------------------------------------------------------------
INT_TYPES = {"u8": (8, False), "u16": (16, False), "u32": (32, False), "u64": (64, False),
             "u128": (128, False), "usize": (64, False), "i8": (8, True), "i16": (16, True),
             "i32": (32, True), "i64": (64, True), "i128": (128, True), "isize": (64, True),
             "char": (32, False)}
WORD_TYPES = ("ethnum::U256", "U256", "ethnum::I256", "I256")


class Int:
    __slots__ = ("e", "bits", "signed")

    def __init__(self, e, bits, signed=False):
        if isinstance(e, int):
            e = z3.BitVecVal(e, bits)
        self.e, self.bits, self.signed = e, bits, signed

    def __repr__(self):
        return "Int%d(%s)" % (self.bits, z3.simplify(self.e))


class Bool:
    __slots__ = ("e",)

    def __init__(self, e):
        if isinstance(e, bool):
            e = z3.BoolVal(e)
        self.e = e

    def __repr__(self):
        return "Bool(%s)" % z3.simplify(self.e)


class Agg:
    """tuple / struct / enum variant / closure / array.  `name`: lazy prefix for unknown fields."""
    __slots__ = ("ty", "variant", "fields", "name", "attrs")

    def __init__(self, ty, fields=None, variant=None, name=None):
        self.ty, self.variant, self.fields, self.name = ty, variant, fields if fields is not None else {}, name
        self.attrs = {}

    def __repr__(self):
        return "Agg(%s%s %s)" % (self.ty, ("::" + self.variant) if self.variant else "", self.fields)


class Lazy:
    """A not-yet-inspected symbolic input of type `ty`, named `name`."""
    __slots__ = ("ty", "name")

    def __init__(self, ty, name):
        self.ty, self.name = ty, name

    def __repr__(self):
        return "Lazy(%s: %s)" % (self.name, self.ty)


class Cell:
    __slots__ = ("v", "label")

    def __init__(self, v=None, label=""):
        self.v, self.label = v, label


class Ref:
    __slots__ = ("cell", "path", "mut")

    def __init__(self, cell, path=(), mut=False):
        self.cell, self.path, self.mut = cell, tuple(path), mut

    def __repr__(self):
        return "Ref(%s%s)" % (self.cell.label, list(self.path))


class FnItem:
    def __init__(self, name):
        self.name = name

    def __repr__(self):
        return "FnItem(%s)" % self.name


class Obj:
    """Library object handled by summaries only (Vec, HashMap, VecDeque, iterators ...)."""

    def __init__(self, kind, ty="", **attrs):
        self.kind, self.ty = kind, ty
        self.__dict__.update(attrs)

    def __repr__(self):
        return "Obj(%s %s)" % (self.kind, {k: v for k, v in self.__dict__.items() if k not in ("kind", "ty")})


UNIT = Agg("()")

_PREFIXES = re.compile(r"\b(?:std|core|alloc)::(?:rc|vec|sync|boxed|collections::hash_map|collections::vec_deque|collections|option|"
                       r"result|ops|any|string|slice|iter|cmp|convert|clone|default|marker|mem|fmt)::(?=[A-Z])")


def normalise(callee):
    """drop std module prefixes in front of type names: `std::rc::Rc<..>` -> `Rc<..>`"""
    return _PREFIXES.sub("", callee)


def strip_generics(p):
    out, d = [], 0
    i = 0
    while i < len(p):
        c = p[i]
        if c == "<":
            d += 1
        elif c == ">" and not (i > 0 and p[i - 1] == "-"):
            d -= 1
        elif d == 0:
            out.append(c)
        i += 1
    return "".join(out).replace("::::", "::").rstrip(":")


def type_head(ty):
    """`std::vec::Vec<u8>` -> 'Vec'; `&mut T` -> '&'; `(A, B)` -> '('"""
    ty = ty.strip()
    if ty.startswith("&"):
        return "&"
    if ty.startswith("("):
        return "("
    if ty.startswith("["):
        return "["
    return strip_generics(ty).split("::")[-1]


def type_args(ty):
    i = ty.find("<")
    if i < 0 or not ty.endswith(">"):
        return []
    return mir.split_top(ty[i + 1:-1])


def deref_type(ty):
    ty = ty.strip()
    m = re.match(r"^&(?:'\w+ )?(?:mut )?(.*)$", ty)
    if m:
        return m.group(1)
    m = re.match(r"^\*(?:const|mut) (.*)$", ty)
    if m:
        return m.group(1)
    for h in ("Box", "Rc", "Arc"):
        if type_head(ty) == h:
            a = type_args(ty)
            return a[0] if a else "?"
    return "?"


# ---------------------------------------------------------------------------------------
class Ctx:
    def __init__(self, fns, src, summaries, prefix=(), max_visits=4, havoc_unknown=False):
        self.fns, self.src, self.summaries = fns, src, summaries
        self.prefix, self.pos = list(prefix), 0
        self.pc = []                 # path condition: list of z3 Bool
        self.solver = None
        self.max_visits = max_visits
        self.fresh_n = 0
        self.events = []             # (kind, data) e.g. calls of interest
        self.havoc_unknown = havoc_unknown
        self.depth = 0
        self.trace = []
        self.feas_cache = None
        self.callres = None
        self.stop_at = None          # {bb: n}: end the path (kind "cut") on the n-th arrival at bb in the top frame
        self.vmcell = None
        self.stmt_hook = None
        self.inline_filter = None      # name -> bool: which crate-local callees are inlined (others are havoc'd in havoc mode)
        self.stats = None

    # -- choices / solver ---------------------------------------------------------------
    def choose(self, n):
        if n <= 1:
            return 0
        if self.pos < len(self.prefix):
            c = self.prefix[self.pos]
            self.pos += 1
            return c
        raise NeedChoice(n)

    def feasible(self, cond):
        # cone of influence: only the path-condition conjuncts that (transitively) share a variable with `cond` can
        # decide its feasibility, given that the path condition itself is satisfiable (every obligation re-checks the
        # full path condition, so an unnoticed inconsistency elsewhere can only make a path vacuous, never a verdict wrong)
        need = set(self._vars_of(cond))
        rel, rest = [], list(self.pc)
        changed = True
        while changed and rest:
            changed = False
            keep = []
            for e in rest:
                vs = self._vars_of(e)
                if not vs or (vs & need):
                    rel.append(e)
                    if not vs <= need:
                        need |= vs
                        changed = True
                else:
                    keep.append(e)
            rest = keep
        key = tuple(sorted(e.get_id() for e in rel)) + (cond.get_id(),)
        c = self.feas_cache
        if key in c:
            return c[key][0]
        s = self.solver
        s.push()
        for e in rel:
            s.add(e)
        s.add(cond)
        r = s.check()
        s.pop()
        if self.stats is not None:
            self.stats["queries"] += 1
        ok = r != z3.unsat
        c[key] = (ok, rel, cond)   # keep exprs alive so ids stay unique
        return ok

    def assume(self, cond):
        cond = z3.simplify(cond)
        if z3.is_false(cond):
            raise PathEnd("infeasible")
        if not z3.is_true(cond):
            self.pc.append(cond)

    _vars_cache = {}

    def _vars_of(self, e):
        k = e.get_id()
        c = Ctx._vars_cache
        if k in c:
            return c[k][0]
        out, stack, seen = set(), [e], set()
        while stack:
            x = stack.pop()
            i = x.get_id()
            if i in seen:
                continue
            seen.add(i)
            if z3.is_const(x) and x.decl().kind() == z3.Z3_OP_UNINTERPRETED:
                out.add(x.decl().name())
            else:
                stack.extend(x.children())
        c[k] = (out, e)
        return out

    def unconstrained(self, var):
        """does the path condition not mention z3 constant `var` at all?"""
        name = var.decl().name()
        return not any(name in self._vars_of(c) for c in self.pc)

    def branch(self, conds):
        """conds: list of z3 Bool (mutually exclusive, exhaustive). Returns chosen index."""
        feas = []
        for i, c in enumerate(conds):
            c = z3.simplify(c)
            if z3.is_false(c):
                continue
            if z3.is_true(c):
                return i
            if self.feasible(c):
                feas.append(i)
        if not feas:
            raise PathEnd("infeasible")
        k = feas[self.choose(len(feas))] if len(feas) > 1 else feas[0]
        self.assume(conds[k])
        return k

    def fresh(self, ty, hint):
        self.fresh_n += 1
        return Lazy(ty, "%s#%d" % (hint, self.fresh_n))

    # -- materialisation ------------------------------------------------------------------
    def scalar(self, ty, name):
        ty = ty.strip()
        if ty in INT_TYPES:
            b, sg = INT_TYPES[ty]
            return Int(z3.BitVec(name, b), b, sg)
        if ty == "bool":
            return Bool(z3.Bool(name))
        if ty in WORD_TYPES:
            return Int(z3.BitVec(name, 256), 256, ty.endswith("I256"))
        if ty == "()":
            return UNIT
        return None

    def force(self, v, want=None):
        """Turn a Lazy into a scalar if its type is scalar; otherwise leave it."""
        if isinstance(v, Lazy):
            s = self.scalar(v.ty, v.name)
            if s is not None:
                return s
        return v

    def as_agg(self, v):
        if isinstance(v, Lazy):
            return Agg(v.ty, {}, None, v.name)
        return v

    def variant_of(self, v):
        """Concrete variant name of enum value v (forking when unknown). Returns (agg, name, idx)."""
        if isinstance(v, Lazy):
            v = self.as_agg(v)
        if not isinstance(v, Agg):
            raise Unsupported("discriminant of %r" % (v,))
        vs = self.src.variants(v.ty)
        if vs is None:
            raise Unsupported("unknown enum type %s" % v.ty)
        if v.variant is None:
            d = v.attrs.get("discr")
            if d is None and v.name is not None:
                # named by access path: clones of the same symbolic input share the discriminant variable
                d = z3.BitVec(v.name + ".discr", 64)
                v.attrs["discr"] = d
                self.assume(z3.ULT(d, z3.BitVecVal(len(vs), 64)))
            if d is not None:
                # pick among the variants the path condition still allows
                range_only = [c for c in self.pc if d.decl().name() in self._vars_of(c)]
                rng = z3.ULT(d, z3.BitVecVal(len(vs), 64))
                rng_s = z3.simplify(rng)
                if all(c.eq(rng) or c.eq(rng_s) for c in range_only):
                    # nothing but its range is known: every variant is feasible, no solver calls needed
                    k = self.choose(len(vs))
                    self.assume(d == z3.BitVecVal(k, 64))
                else:
                    k = self.branch([d == z3.BitVecVal(i, 64) for i in range(len(vs))])
            else:
                k = self.choose(len(vs))
            v.variant = vs[k][0]
            self.trace.append(("variant", v.name, v.variant))
        for i, (n, _) in enumerate(vs):
            if n == v.variant:
                return v, n, i
        raise Unsupported("variant %s not in %s" % (v.variant, v.ty))

    # -- locations ------------------------------------------------------------------------
    def loc(self, frame, place):
        """-> (cell, path)"""
        k = place[0]
        if k == "local":
            return frame["locals"][place[1]], ()
        if k == "deref":
            c, p = self.loc(frame, place[1])
            v = self.read(c, p)
            if isinstance(v, Lazy):
                # unknown reference / box: materialise its target
                tgt = Cell(Lazy(deref_type(v.ty), v.name + ".*"), v.name + ".*")
                v = Ref(tgt, (), True)
                self.write(c, p, v)
            if isinstance(v, Ref):
                return v.cell, v.path
            if isinstance(v, Agg) and type_head(v.ty) in ("Box", "Rc", "Arc") and "inner" in v.attrs:
                return v.attrs["inner"], ()
            if isinstance(v, Obj) and hasattr(v, "cell"):
                return v.cell, ()
            raise Unsupported("deref of %r" % (v,))
        if k == "field":
            c, p = self.loc(frame, place[1])
            return c, p + (("f", place[2], place[3]),)
        if k == "downcast":
            c, p = self.loc(frame, place[1])
            return c, p + (("d", place[2]),)
        if k == "index":
            c, p = self.loc(frame, place[1])
            iv = self.force(frame["locals"][place[2]].v)
            return c, p + (("i", iv),)
        if k == "cindex":
            c, p = self.loc(frame, place[1])
            return c, p + (("i", Int(place[2], 64)),)
        raise Unsupported("place %r" % (place,))

    def _step(self, parent_get, parent_set, v, proj):
        """project value v by proj; returns (child value, setter for child)."""
        if proj[0] == "f":
            idx, fty = proj[1], proj[2]
            if isinstance(v, Lazy):
                v = self.as_agg(v)
                parent_set(v)
            if isinstance(v, Int) and v.bits == 256 and idx == 0:
                return v, parent_set            # U256 newtype projection
            if isinstance(v, Obj):
                h = getattr(v, "field_hook", None)
                if h:
                    return h(self, v, idx, fty)
                raise Unsupported("field %d of library object %r" % (idx, v))
            if not isinstance(v, Agg):
                raise Unsupported("field %d of %r" % (idx, v))
            if idx not in v.fields:
                if v.name is None:
                    raise Unsupported("read of unset field %d of %r" % (idx, v))
                sub = "%s.%s%d" % (v.name, (v.variant + ".") if v.variant else "", idx)
                v.fields[idx] = Lazy(fty, sub)
            ch = self.force(v.fields[idx])
            v.fields[idx] = ch

            def setter(nv, v=v, idx=idx):
                v.fields[idx] = nv
            return ch, setter
        if proj[0] == "d":
            if isinstance(v, Lazy):
                v = self.as_agg(v)
                parent_set(v)
            if not isinstance(v, Agg):
                raise Unsupported("downcast of %r" % (v,))
            if v.variant is None:
                v.variant = proj[1]      # dataflow guarantees the variant was tested before
                self.trace.append(("variant", v.name, v.variant))
                d = v.attrs.get("discr")
                if d is not None:
                    i = self.src.variant_index(v.ty, proj[1])
                    if i is not None:
                        self.assume(d == z3.BitVecVal(i, 64))
            elif v.variant != proj[1]:
                raise PathEnd("infeasible", "downcast %s of %s" % (proj[1], v.variant))
            return v, parent_set
        if proj[0] == "i":
            if isinstance(v, Obj) and hasattr(v, "index_hook"):
                return v.index_hook(self, v, proj[1])
            if isinstance(v, Agg):
                i = proj[1]
                if isinstance(i, Int) and z3.is_bv_value(z3.simplify(i.e)):
                    k = z3.simplify(i.e).as_long()
                    if k in v.fields:
                        def setter(nv, v=v, k=k):
                            v.fields[k] = nv
                        return v.fields[k], setter
            raise Unsupported("index into %r" % (v,))
        raise Unsupported("projection %r" % (proj,))

    def read(self, cell, path):
        v = cell.v

        def set_root(nv, cell=cell):
            cell.v = nv
        setter = set_root
        if not path:
            v = self.force(v)
            cell.v = v
            return v
        for proj in path:
            v, setter = self._step(None, setter, v, proj)
        return v

    def write(self, cell, path, val):
        if not path:
            cell.v = val
            return
        v = cell.v

        def set_root(nv, cell=cell):
            cell.v = nv
        setter = set_root
        for proj in path:
            v, setter = self._step(None, setter, v, proj)
        setter(val)

    # -- operands / rvalues ------------------------------------------------------------------
    def const(self, text, want_ty=None):
        t = text.strip()
        if t in ("true", "false"):
            return Bool(t == "true")
        if t == "()":
            return UNIT
        m = re.match(r"^(-?\d+)_(\w+)$", t)
        if m and m.group(2) in INT_TYPES:
            b, sg = INT_TYPES[m.group(2)]
            return Int(int(m.group(1)) & ((1 << b) - 1), b, sg)
        if t.startswith('"') or t.startswith('b"'):
            return Obj("str", "&str", text=t)
        if t.startswith("ZeroSized"):
            ty = t.split(":", 1)[1].strip() if ":" in t else ""
            if ty.startswith("{closure@"):
                return Agg(ty, {})
            return Obj("zst", ty)
        if t.startswith("{closure@") or t.startswith("fn("):
            return Agg(t, {})
        # named constants of the crate
        last = t.split("::")[-1]
        if last in self.src.consts:
            val, ty = self.src.consts[last]
            if ty in INT_TYPES:
                b, sg = INT_TYPES[ty]
                return Int(val, b, sg)
        m = re.match(r"^'(.)'$", t)
        if m:
            return Int(ord(m.group(1)), 32)
        m = re.match(r"^(?:core::num::<impl )?(\w+?)>?::(MAX|MIN|BITS)$", t)
        if m and m.group(1) in INT_TYPES:
            b, sg = INT_TYPES[m.group(1)]
            if m.group(2) == "BITS":
                return Int(b, 32)
            if m.group(2) == "MAX":
                return Int(((1 << (b - 1)) - 1) if sg else ((1 << b) - 1), b, sg)
            return Int((1 << (b - 1)) if sg else 0, b, sg)
        m = re.match(r"^(.*)::(promoted\[\d+\])$", t, re.S)
        if m:
            f = self.resolve(m.group(1))
            if f is not None and (f.name + "::" + m.group(2)) in self.fns:
                return self.run_fn(self.fns[f.name + "::" + m.group(2)], [])
            # unresolved promoted constant (typically format-string pieces feeding a panic message)
            return Obj("promoted", "?", text=t)
        t_plain = strip_generics(t)
        if re.match(r"^(\w+::)*[A-Z]\w*$", t_plain):
            # a unit struct (or unit enum variant) used as a value
            segs = t_plain.split("::")
            if len(segs) >= 2 and self.src.variants("::".join(segs[:-1])) is not None \
                    and self.src.variant_index("::".join(segs[:-1]), segs[-1]) is not None:
                return Agg("::".join(segs[:-1]), {}, segs[-1])
            return Agg(t_plain, {})
        raise Unsupported("constant %r" % text)

    def operand(self, frame, op):
        if op[0] == "const":
            return self.const(op[1])
        if op[0] == "fnitem":
            return FnItem(op[1])
        c, p = self.loc(frame, op[1])
        v = self.read(c, p)
        return v

    def binop(self, name, a, b):
        a, b = self.force(a), self.force(b)
        if isinstance(a, Bool) and isinstance(b, Bool):
            ops = {"BitAnd": z3.And, "BitOr": z3.Or, "BitXor": z3.Xor, "Eq": lambda x, y: x == y,
                   "Ne": lambda x, y: x != y}
            if name in ops:
                return Bool(ops[name](a.e, b.e))
            raise Unsupported("bool binop " + name)
        if not (isinstance(a, Int) and isinstance(b, Int)):
            raise Unsupported("binop %s on %r, %r" % (name, a, b))
        x, y, bits, sg = a.e, b.e, a.bits, a.signed
        if name in ("Shl", "Shr", "ShlUnchecked", "ShrUnchecked"):
            if b.bits > bits:
                y = z3.Extract(bits - 1, 0, y)
            elif b.bits < bits:
                y = z3.ZeroExt(bits - b.bits, y)
            y = y & z3.BitVecVal(bits - 1, bits)        # Rust masks the amount when unchecked
            if name.startswith("Shl"):
                return Int(x << y, bits, sg)
            return Int((x >> y) if sg else z3.LShR(x, y), bits, sg)
        if b.bits != bits:
            raise Unsupported("width mismatch in %s" % name)
        base = name.replace("Unchecked", "")
        if base == "Add":
            return Int(x + y, bits, sg)
        if base == "Sub":
            return Int(x - y, bits, sg)
        if base == "Mul":
            return Int(x * y, bits, sg)
        if base == "Div":
            return Int((x / y) if sg else z3.UDiv(x, y), bits, sg)
        if base == "Rem":
            return Int(z3.SRem(x, y) if sg else z3.URem(x, y), bits, sg)
        if base == "BitAnd":
            return Int(x & y, bits, sg)
        if base == "BitOr":
            return Int(x | y, bits, sg)
        if base == "BitXor":
            return Int(x ^ y, bits, sg)
        if base in ("Eq", "Ne", "Lt", "Le", "Gt", "Ge"):
            if base == "Eq":
                return Bool(x == y)
            if base == "Ne":
                return Bool(x != y)
            f = {"Lt": (lambda: x < y) if sg else (lambda: z3.ULT(x, y)),
                 "Le": (lambda: x <= y) if sg else (lambda: z3.ULE(x, y)),
                 "Gt": (lambda: x > y) if sg else (lambda: z3.UGT(x, y)),
                 "Ge": (lambda: x >= y) if sg else (lambda: z3.UGE(x, y))}[base]
            return Bool(f())
        if base in ("AddWithOverflow", "SubWithOverflow", "MulWithOverflow"):
            ext = z3.SignExt if sg else z3.ZeroExt
            n = bits if base == "MulWithOverflow" else 1
            xe, ye = ext(n, x), ext(n, y)
            r = {"AddWithOverflow": xe + ye, "SubWithOverflow": xe - ye, "MulWithOverflow": xe * ye}[base]
            lo = z3.Extract(bits - 1, 0, r)
            ovf = ext(n, lo) != r
            return Agg("(%s, bool)" % ("i" if sg else "u"), {0: Int(lo, bits, sg), 1: Bool(ovf)})
        if base == "Cmp":
            raise Unsupported("three-way Cmp")
        raise Unsupported("binop " + name)

    def cast(self, v, ty, kind):
        v = self.force(v)
        ty = ty.strip()
        if kind.startswith("PointerCoercion") or kind in ("Transmute", "PtrToPtr", "FnPtrToPtr"):
            return v
        if kind in ("IntToInt",):
            if ty not in INT_TYPES:
                raise Unsupported("cast to " + ty)
            b, sg = INT_TYPES[ty]
            if isinstance(v, Bool):
                return Int(z3.If(v.e, z3.BitVecVal(1, b), z3.BitVecVal(0, b)), b, sg)
            if isinstance(v, Agg) and not v.fields and v.variant is not None:
                # fieldless enum -> its discriminant
                _, _, i = self.variant_of(v)
                return Int(i, b, sg)
            if not isinstance(v, Int):
                raise Unsupported("IntToInt of %r" % (v,))
            if b == v.bits:
                return Int(v.e, b, sg)
            if b < v.bits:
                return Int(z3.Extract(b - 1, 0, v.e), b, sg)
            return Int((z3.SignExt if v.signed else z3.ZeroExt)(b - v.bits, v.e), b, sg)
        raise Unsupported("cast kind " + kind)

    def aggregate(self, frame, text):
        """struct / enum / tuple / array / closure aggregates."""
        t = text.strip()
        if t.startswith("(") and t.endswith(")"):
            items = mir.split_top(t[1:-1])
            return Agg("(tuple)", {i: self.operand(frame, mir.parse_operand(x)) for i, x in enumerate(items)})
        if t.startswith("[") and t.endswith("]"):
            if "; " in t and not t.startswith("[copy") and not t.startswith("[move") and not t.startswith("[const"):
                raise Unsupported("repeat aggregate")
            items = mir.split_top(t[1:-1])
            return Agg("[array]", {i: self.operand(frame, mir.parse_operand(x)) for i, x in enumerate(items)})
        if t.startswith("{closure@"):
            j = t.index("}")
            ty = t[:j + 1]
            rest = t[j + 1:].strip()
            fields = {}
            if rest.startswith("{"):
                for i, item in enumerate(mir.split_top(rest[1:-1])):
                    fields[i] = self.operand(frame, mir.parse_operand(item.split(": ", 1)[1]))
            return Agg(ty, fields)
        # Path { f: op, .. } | Path(op, ..) | Path
        m = re.match(r"^(.*?)\s*\{(.*)\}$", t, re.S)
        named = None
        path, ops = t, []
        if m and not t.endswith(")"):
            path = m.group(1)
            named = []
            for item in mir.split_top(m.group(2)):
                n, o = item.split(": ", 1)
                named.append((n.strip(), o))
        elif t.endswith(")"):
            d = 0
            for j in range(len(t) - 1, -1, -1):
                if t[j] == ")":
                    d += 1
                elif t[j] == "(":
                    d -= 1
                    if d == 0:
                        break
            path, ops = t[:j], mir.split_top(t[j + 1:-1])
        p = strip_generics(path)
        segs = p.split("::")
        enum_ty, variant = None, None
        if len(segs) >= 2 and self.src.variants("::".join(segs[:-1])) is not None \
                and self.src.variant_index("::".join(segs[:-1]), segs[-1]) is not None:
            enum_ty, variant = "::".join(segs[:-1]), segs[-1]
        ty = enum_ty or p
        fields = {}
        if named is not None:
            for n, o in named:
                idx = self.src.field_index(ty, n, variant)
                if idx is None:
                    raise Unsupported("field %s of %s" % (n, t))
                fields[idx] = self.operand(frame, mir.parse_operand(o))
        else:
            for i, o in enumerate(ops):
                fields[i] = self.operand(frame, mir.parse_operand(o))
        return Agg(ty, fields, variant)

    def rvalue(self, frame, rhs):
        rhs = rhs.strip()
        if rhs.startswith("no_retag "):
            rhs = rhs[len("no_retag "):]
        if rhs.startswith(("copy ", "move ", "const ")):
            m = re.match(r"^(.*) as (.+?) \((\w+(?:\(.*\))?)\)$", rhs, re.S)
            if m and re.match(r"^(copy|move|const) ", m.group(1)):
                try:
                    op = mir.parse_operand(m.group(1))
                    return self.cast(self.operand(frame, op), m.group(2), m.group(3))
                except ValueError:
                    pass
            return self.operand(frame, mir.parse_operand(rhs))
        m = re.match(r"^&(raw (?:const|mut) |mut |)(.*)$", rhs, re.S)
        if m and not rhs.startswith("&&"):
            c, p = self.loc(frame, mir.parse_place(m.group(2)))
            # normalise: a reborrow of *r is r's target
            return Ref(c, p, "mut" in m.group(1))
        m = re.match(r"^(\w+)\((.*)\)$", rhs, re.S)
        if m and m.group(1)[0].isupper() and m.group(1) in BINOPS:
            a, b = mir.split_top(m.group(2))
            return self.binop(m.group(1), self.operand(frame, mir.parse_operand(a)),
                              self.operand(frame, mir.parse_operand(b)))
        if m and m.group(1) in ("Not", "Neg"):
            v = self.force(self.operand(frame, mir.parse_operand(m.group(2))))
            if isinstance(v, Bool):
                return Bool(z3.Not(v.e))
            if isinstance(v, Int):
                return Int(~v.e if m.group(1) == "Not" else -v.e, v.bits, v.signed)
            raise Unsupported("unop on %r" % (v,))
        if m and m.group(1) == "discriminant":
            c, p = self.loc(frame, mir.parse_place(m.group(2)))
            v = self.read(c, p)
            if isinstance(v, Lazy):
                v = self.as_agg(v)
                self.write(c, p, v)
            if isinstance(v, Agg) and v.variant is None and v.name is not None:
                # unknown enum: keep the discriminant symbolic; the following switchInt forks only over its explicit
                # targets (plus "otherwise") instead of over every variant
                vs = self.src.variants(v.ty)
                if vs is None:
                    raise Unsupported("unknown enum type %s" % v.ty)
                d = v.attrs.get("discr")
                if d is None:
                    d = z3.BitVec(v.name + ".discr", 64)
                    v.attrs["discr"] = d
                    self.assume(z3.ULT(d, z3.BitVecVal(len(vs), 64)))
                return Int(d, 64, True)
            _, _, i = self.variant_of(v)
            return Int(i, 64, True)
        if m and m.group(1) in ("Len", "PtrMetadata"):
            arg = m.group(2)
            if arg.startswith(("copy ", "move ")):
                v = self.operand(frame, mir.parse_operand(arg))
            else:
                c, p = self.loc(frame, mir.parse_place(arg))
                v = self.read(c, p)
            return self.call_summary("@len", [v], "usize")
        if m and m.group(1) == "CopyForDeref":
            c, p = self.loc(frame, mir.parse_place(m.group(2)))
            return self.read(c, p)
        return self.aggregate(frame, rhs)

    def exec_stmt(self, frame, st):
        st = st.rstrip(";")
        if self.stmt_hook is not None:
            self.stmt_hook(self, frame, st)
        if st.startswith(("StorageLive", "StorageDead", "nop", "FakeRead", "PlaceMention", "AscribeUserType",
                          "Retag", "Coverage", "ConstEvalCounter", "BackwardIncompatibleDropHint")):
            return
        m = re.match(r"^discriminant\((.*)\) = (\d+)$", st)
        if m:
            raise Unsupported("SetDiscriminant")
        if st.startswith("Deinit("):
            return
        if st.startswith("assume("):
            v = self.force(self.operand(frame, mir.parse_operand(st[7:-1])))
            self.assume(v.e)
            return
        # lhs = rhs   (lhs is a place: balanced scan for ' = ' at depth 0)
        d = 0
        for i, ch in enumerate(st):
            if ch in "([{":
                d += 1
            elif ch in ")]}":
                d -= 1
            elif d == 0 and st.startswith(" = ", i):
                lhs, rhs = st[:i], st[i + 3:]
                break
        else:
            raise Unsupported("statement %r" % st)
        val = self.rvalue(frame, rhs)
        c, p = self.loc(frame, mir.parse_place(lhs))
        self.write(c, p, val)

    # -- calls ---------------------------------------------------------------------------------
    def resolve(self, callee):
        return self.callres.resolve(callee)

    def call_summary(self, key, args, ret_ty, callee=None):
        for pat, fn in self.summaries:
            if (pat == key) if isinstance(pat, str) else pat.search(key):
                return fn(self, args, ret_ty, callee or key)
        raise Unsupported("no summary for %s" % key)

    def call(self, callee, args, ret_ty):
        key = normalise(callee)
        for pat, fn in self.summaries:
            if (pat == key) if isinstance(pat, str) else pat.search(key):
                if self.havoc_unknown:
                    # over-approximating mode: a summary that cannot model this use of the callee degrades to havoc
                    try:
                        r = fn(self, args, ret_ty, key)
                    except (Unsupported, AttributeError, KeyError, TypeError, IndexError):
                        self.events.append(("havoc", callee))
                        return self.fresh(ret_ty, "havoc:" + callee[-40:])
                else:
                    r = fn(self, args, ret_ty, key)
                if r is not NotImplemented:
                    return r
        f = self.resolve(callee)
        if f is not None and (self.inline_filter is None or self.inline_filter(f.name)):
            return self.run_fn(f, args)
        if self.havoc_unknown:
            self.events.append(("havoc", callee))
            return self.fresh(ret_ty, "havoc:" + callee[-40:])
        raise Unsupported("callee without MIR or summary: %s" % callee)

    def run_fn(self, fn, args, start="bb0", frame=None):
        self.depth += 1
        if self.depth > 60:
            raise Unsupported("call depth")
        if frame is None:
            frame = {"locals": {l: Cell(None, "%s:%s" % (fn.name[-24:], l)) for l in fn.locals}, "fn": fn, "visits": {}}
            if len(args) != len(fn.args):
                raise Unsupported("arity mismatch calling %s" % fn.name)
            for (l, _), a in zip(fn.args, args):
                frame["locals"][l].v = a
        bb = start
        top = self.depth == 1
        while True:
            n = frame["visits"].get(bb, 0) + 1
            if top and self.stop_at and bb in self.stop_at and n >= self.stop_at[bb]:
                raise PathEnd("cut", bb, frame)
            frame["visits"][bb] = n
            if n > self.max_visits:
                raise PathEnd("loop-bound", "%s %s" % (fn.name, bb))
            blk = fn.blocks[bb]
            for st in blk.stmts:
                self.exec_stmt(frame, st)
            t = blk.__dict__.get("pterm")
            if t is None:
                t = mir.parse_term(blk.term)
                blk.pterm = t
            k = t["kind"]
            if k == "goto":
                bb = t["target"]
            elif k == "return":
                self.depth -= 1
                c = frame["locals"]["_0"]
                return self.read(c, ())
            elif k == "switch":
                v = self.force(self.operand(frame, t["op"]))
                if isinstance(v, Bool):
                    conds, tgts = [], []
                    for val, tb in t["targets"]:
                        conds.append(v.e if val != 0 else z3.Not(v.e))
                        tgts.append(tb)
                    if t["otherwise"]:
                        vals = [val for val, _ in t["targets"]]
                        conds.append(z3.Not(v.e) if 0 not in vals else (v.e if 1 not in vals else z3.BoolVal(False)))
                        tgts.append(t["otherwise"])
                elif isinstance(v, Int):
                    conds, tgts = [], []
                    for val, tb in t["targets"]:
                        conds.append(v.e == z3.BitVecVal(val, v.bits))
                        tgts.append(tb)
                    if t["otherwise"]:
                        conds.append(z3.And([v.e != z3.BitVecVal(val, v.bits) for val, _ in t["targets"]])
                                     if t["targets"] else z3.BoolVal(True))
                        tgts.append(t["otherwise"])
                else:
                    raise Unsupported("switch on %r" % (v,))
                bb = tgts[self.branch(conds)]
            elif k == "call":
                args_v = [self.operand(frame, a) for a in t["args"]]
                ret_ty = "?"
                if t["dest"]:
                    pl = mir.parse_place(t["dest"])
                    ret_ty = frame["fn"].locals.get(pl[1], "?") if pl[0] == "local" else "?"
                r = self.call(t["callee"], args_v, ret_ty)
                if t["target"] is None:
                    raise PathEnd("diverge", t["callee"])
                if t["dest"]:
                    c, p = self.loc(frame, mir.parse_place(t["dest"]))
                    self.write(c, p, r)
                bb = t["target"]
            elif k == "assert":
                v = self.force(self.operand(frame, t["cond"]))
                ok = z3.Not(v.e) if t["neg"] else v.e
                i = self.branch([ok, z3.Not(ok)])
                if i == 1:
                    raise PathEnd("panic", "MIR assert: %s in %s %s" % (t["msg"], fn.name, bb))
                bb = t["target"]
            elif k == "drop":
                bb = t["target"]
            elif k == "unreachable":
                raise PathEnd("unreachable", "%s %s" % (fn.name, bb))
            else:
                raise Unsupported("terminator " + k)


BINOPS = {"Add", "Sub", "Mul", "Div", "Rem", "BitAnd", "BitOr", "BitXor", "Shl", "Shr", "Eq", "Ne", "Lt", "Le",
          "Gt", "Ge", "AddWithOverflow", "SubWithOverflow", "MulWithOverflow", "AddUnchecked", "SubUnchecked",
          "MulUnchecked", "ShlUnchecked", "ShrUnchecked", "Cmp", "Offset"}


class CallResolver:
    """Map a call path in MIR (`Type::method`, `<T as Trait>::method`, `module::function`) to a definition."""

    def __init__(self, fns, src):
        self.fns, self.src = fns, src
        self.by_last = {}
        self.meta = {}
        self.modof = {}
        for name, f in fns.items():
            last = name.split("::")[-1]
            self.by_last.setdefault(last, []).append(f)
            m = re.search(r"<impl at (src/[^:]+):(\d+):\d+: \d+:\d+>", name)
            if m:
                hdr = src.impl_header(m.group(1), int(m.group(2)))
                self.meta[name] = self._hdr(hdr)
                mod = m.group(1)[len("src/"):-len(".rs")].replace("/", "::")
                if mod.endswith("::mod"):
                    mod = mod[:-5]
                self.modof[name] = mod
        self.cache = {}
        self.closures = {}
        for name, f in fns.items():
            if "{closure#" in name and f.args:
                t = f.args[0][1]
                t = re.sub(r"^&(mut )?", "", t)
                self.closures.setdefault(t, f)

    def closure(self, ty):
        return self.closures.get(ty)

    @staticmethod
    def _hdr(h):
        """-> (trait or None, self type last segment)"""
        h = h.strip()
        m = re.match(r"^derive (#\[.*\]) for (\w+)$", h)
        if m:
            return ("@derive", m.group(2), None)
        h = re.sub(r"^(unsafe )?impl\s*(<.*?>)?\s*", "", h) if not h.startswith("impl<") else _drop_impl_generics(h)
        h = h.split(" where ")[0].strip()
        if " for " in h:
            tr, ty = h.split(" for ", 1)
            ta = type_args(tr.strip())
            return (strip_generics(tr).split("::")[-1].strip(), strip_generics(ty).split("::")[-1].strip().lstrip("&"),
                    type_head(ta[0]) if ta else None)
        return (None, strip_generics(h).split("::")[-1].strip(), None)

    def resolve(self, callee):
        if callee in self.cache:
            return self.cache[callee]
        r = self._resolve(callee)
        self.cache[callee] = r
        return r

    def _resolve(self, callee):
        c = callee.strip()
        if c in self.fns:
            return self.fns[c]
        tr, ty, meth = None, None, None
        full_ty = None
        call_targ = None
        m = re.match(r"^<(.+) as (.+)>::(\w+)(?:::<.*>)?$", c, re.S)
        if m:
            full_ty = strip_generics(m.group(1)).lstrip("&").replace("mut ", "").strip()
            _ta = type_args(m.group(2).strip())
            call_targ = type_head(_ta[0]) if _ta else None
            ty = strip_generics(m.group(1)).split("::")[-1].lstrip("&").replace("mut ", "").strip()
            tr = strip_generics(m.group(2)).split("::")[-1]
            meth = m.group(3)
        else:
            p = strip_generics(c)
            segs = p.split("::")
            meth = segs[-1]
            ty = segs[-2] if len(segs) >= 2 else None
            full_ty = "::".join(segs[:-1])
        cands = self.by_last.get(meth, [])
        out = []
        for f in cands:
            meta = self.meta.get(f.name)
            if meta is None:
                # free function: module path must be a suffix
                if tr is None and (f.name == strip_generics(c) or f.name.endswith("::" + strip_generics(c))):
                    out.append(f)
                continue
            ftr, fty = meta[0], meta[1]
            if tr is not None:
                if fty == ty and (ftr == tr or (ftr == "@derive")):
                    out.append(f)
            else:
                if fty == ty and ftr is None:
                    out.append(f)
        if len(out) == 1:
            return out[0]
        if len(out) > 1 and full_ty and "::" in full_ty:
            q = [f for f in out if (self.modof.get(f.name, "") + "::" + self.meta[f.name][1]).endswith(full_ty)]
            if len(q) == 1:
                return q[0]
            if q:
                out = q
        if len(out) > 1 and tr is not None and call_targ is not None:
            exact = [f for f in out if self.meta[f.name][2] == call_targ]
            generic = [f for f in out if self.meta[f.name][2] is not None and re.match(r"^[A-Z]\w?$", self.meta[f.name][2])]
            if len(exact) == 1:
                return exact[0]
            if not exact and len(generic) == 1:
                return generic[0]
        if len(out) > 1 and tr is not None:
            # derive impls on the same type: pick by trait via location column order is unknowable -> ambiguous
            exact = [f for f in out if self.meta[f.name][0] == tr]
            if len(exact) == 1:
                return exact[0]
        return None


def _drop_impl_generics(h):
    # impl<K, V> Foo<K, V> ...
    d = 0
    for i in range(4, len(h)):
        if h[i] == "<":
            d += 1
        elif h[i] == ">":
            d -= 1
            if d == 0:
                return h[i + 1:].strip()
    return h


# ---------------------------------------------------------------------------------------
class Path:
    def __init__(self, kind, pc, ret=None, msg="", ctx=None, data=None):
        self.kind, self.pc, self.ret, self.msg, self.ctx, self.data = kind, pc, ret, msg, ctx, data

    def __repr__(self):
        return "<Path %s %s pc=%d>" % (self.kind, self.msg[:60], len(self.pc))


class Explorer:
    def __init__(self, fns, src, summaries, max_visits=4, max_paths=20000, havoc_unknown=False, max_seconds=None):
        import os as _os
        self.max_seconds = max_seconds or float(_os.environ.get("MIRSMT_EXPLORE_SECONDS", "150"))
        self.fns, self.src, self.summaries = fns, src, summaries
        self.callres = CallResolver(fns, src)
        self.max_visits, self.max_paths, self.havoc_unknown = max_visits, max_paths, havoc_unknown
        self.solver = z3.Solver()
        self.feas_cache = {}
        self.stats = {"queries": 0, "paths": 0, "replays": 0}

    def explore(self, body):
        """body(ctx) -> value; runs it along every feasible path. Returns [Path]."""
        import time as _time
        stack = [[]]
        paths = []
        t_start = _time.time()
        while stack:
            if _time.time() - t_start > self.max_seconds:
                raise Unsupported("exploration time budget exceeded (%ds, %d paths so far)" % (self.max_seconds, len(paths)))
            prefix = stack.pop()
            ctx = Ctx(self.fns, self.src, self.summaries, prefix, self.max_visits, self.havoc_unknown)
            ctx.solver, ctx.feas_cache, ctx.callres, ctx.stats = self.solver, self.feas_cache, self.callres, self.stats
            self.stats["replays"] += 1
            try:
                r = body(ctx)
                paths.append(Path("return", ctx.pc, r, ctx=ctx))
            except NeedChoice as nc:
                for i in reversed(range(nc.n)):
                    stack.append(prefix + [i])
                continue
            except PathEnd as pe:
                if pe.kind == "infeasible":
                    continue
                paths.append(Path(pe.kind, ctx.pc, None, pe.msg, ctx=ctx, data=pe.data))
            if len(paths) > self.max_paths:
                raise Unsupported("path budget exceeded")
        self.stats["paths"] += len(paths)
        return paths
