"""Discharging obligations over explored paths with z3, cross-checked by cvc5."""
import time

import z3

from .engine import cvc5_check
from .interp import Unsupported


class Prover:
    def __init__(self, out, engine_name="mirsmt", cross=True, timeout_ms=120000, cross_limit=12):
        self.out, self.cross, self.timeout_ms = out, cross, timeout_ms
        self.cross_limit = cross_limit     # cvc5 is a process per query: cross-check the first N queries of every obligation
        self.n_cross = 0
        self.engine_name = engine_name
        self.n_queries = 0

    def check_paths(self, oid, paths, post, pre=None, note="", expect_paths=None, kinds=("return",)):
        """For every path of kind in `kinds`: pc /\ pre /\ not post(path) must be unsat.
        post(path) -> z3 Bool | None (None = path carries no obligation).
        Returns ('holds', None) | ('violated', (path, model)) | ('inconclusive', why)."""
        t0 = time.time()
        n = 0
        pre = pre or []
        witnessed = False
        for p in paths:
            if p.kind in ("panic",) and "panic" not in kinds and kinds != ("*",):
                continue
            if p.kind not in kinds and kinds != ("*",):
                if p.kind in ("loop-bound",):
                    self.out.obligation(oid, self.engine_name, "inconclusive", time.time() - t0, witness=False,
                                        note="loop bound reached: %s" % p.msg)
                    self.out.inconc("%s: unwinding bound reached (%s)" % (oid, p.msg))
                    return "inconclusive", p.msg
                continue
            f = post(p)
            if f is None:
                continue
            n += 1
            s = z3.Solver()
            s.set("timeout", self.timeout_ms)
            for c in p.pc:
                s.add(c)
            for c in pre:
                s.add(c)
            s.add(z3.Not(f))
            r = s.check()
            self.n_queries += 1
            if r == z3.unknown:
                self.out.obligation(oid, self.engine_name, "inconclusive", time.time() - t0, witness=False, note="z3 unknown")
                self.out.inconc("%s: z3 returned unknown" % oid)
                return "inconclusive", "z3 unknown"
            if self.cross and n <= self.cross_limit:
                self.n_cross += 1
                cr = cvc5_check(s)
                if cr in ("sat", "unsat") and cr != str(r):
                    self.out.obligation(oid, self.engine_name, "inconclusive", time.time() - t0, witness=False,
                                        note="solver disagreement z3=%s cvc5=%s" % (r, cr))
                    self.out.inconc("%s: z3 and cvc5 disagree (%s vs %s)" % (oid, r, cr))
                    return "inconclusive", "disagree"
                if cr.startswith("error"):
                    self.out.notes.append("%s: cvc5 cross-check unavailable for one query (%s)" % (oid, cr[:80]))
            if r == z3.sat:
                return "violated", (p, s.model(), time.time() - t0)
            if not witnessed:
                # vacuity guard: the path condition together with the assumed pre-state must be satisfiable
                w = z3.Solver()
                w.set("timeout", self.timeout_ms)
                for c in p.pc:
                    w.add(c)
                for c in pre:
                    w.add(c)
                self.n_queries += 1
                if w.check() == z3.sat:
                    witnessed = True
        if n == 0:
            self.out.obligation(oid, self.engine_name, "vacuous", time.time() - t0, witness=False, note="no path carries this obligation")
            self.out.inconc("%s: no explored path carries the obligation (vacuous)" % oid)
            return "inconclusive", "vacuous"
        if not witnessed:
            self.out.obligation(oid, self.engine_name, "vacuous", time.time() - t0, witness=False,
                                note="no obligation-carrying path is satisfiable together with the assumed pre-state")
            self.out.inconc("%s: assumptions are unsatisfiable on every path (vacuous)" % oid)
            return "inconclusive", "vacuous"
        if expect_paths is not None and n < expect_paths:
            self.out.obligation(oid, self.engine_name, "vacuous", time.time() - t0, witness=False,
                                note="only %d of the expected %d paths" % (n, expect_paths))
            self.out.inconc("%s: fewer paths than expected (%d < %d)" % (oid, n, expect_paths))
            return "inconclusive", "few paths"
        self.out.obligation(oid, self.engine_name, "holds", time.time() - t0, witness=True, paths=n, note=note)
        return "holds", None


def model_dict(model):
    d = {}
    for decl in model.decls():
        v = model[decl]
        try:
            d[decl.name()] = v.as_long() if z3.is_bv_value(v) else (z3.is_true(v) if z3.is_bool(v) else str(v))
        except Exception:
            d[decl.name()] = str(v)
    return d


def ev(model, e, default=0):
    v = model.eval(e, model_completion=True)
    if z3.is_bv_value(v):
        return v.as_long()
    if z3.is_bool(v):
        return z3.is_true(v)
    return default
